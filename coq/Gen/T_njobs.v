(* REGENERATED on every run by harness/gen_c15.py from joblib/_parallel_backends.py and
   joblib/externals/loky/backend/context.py.  Do not edit.  The reading table is in gen_c15.py. *)
From Coq Require Import ZArith List Bool.
Require Import JV.Base.PyPrelude.
Import ListNotations.
Open Scope Z_scope.

(* SequentialBackend.effective_n_jobs *)
Definition seq_effective_n_jobs (n_jobs : Z) : result Z :=
  if (n_jobs =? (0)) then (Raise ValueError) else (Ok ((1))).

(* PoolManagerMixin.effective_n_jobs *)
Definition pool_effective_n_jobs (mp_none : bool) (cpus : Z) (n_jobs : Z) : result Z :=
  if (n_jobs =? (0)) then (Raise ValueError) else (if (mp_none || false) then (Ok ((1))) else (bind (if (n_jobs <? (0)) then (let n_jobs := (Z.max ((cpus + (1)) + n_jobs) (1)) in
  Ok n_jobs) else (Ok n_jobs)) (fun n_jobs =>
  Ok (n_jobs)))).

(* LokyBackend.effective_n_jobs *)
Definition loky_effective_n_jobs (mp_none : bool) (cpus : Z) (daemon : bool) (depth : Z) (main_thread : bool) (level : Z) (n_jobs : Z) : result Z :=
  if (n_jobs =? (0)) then (Raise ValueError) else (if (mp_none || false) then (Ok ((1))) else (if daemon then (Ok ((1))) else (if (negb (main_thread || (level =? (0)))) then (Ok ((1))) else (bind (if (n_jobs <? (0)) then (let n_jobs := (Z.max ((cpus + (1)) + n_jobs) (1)) in
  Ok n_jobs) else (Ok n_jobs)) (fun n_jobs =>
  Ok (n_jobs)))))).

(* MultiprocessingBackend.effective_n_jobs *)
Definition mp_effective_n_jobs (mp_none : bool) (cpus : Z) (daemon : bool) (depth : Z) (main_thread : bool) (level : Z) (n_jobs : Z) : result Z :=
  if mp_none then (Ok ((1))) else (if daemon then (Ok ((1))) else (if (depth >? (0)) then (Ok ((1))) else (if (negb (main_thread || (level =? (0)))) then (Ok ((1))) else (pool_effective_n_jobs mp_none cpus n_jobs)))).

(* loky.backend.context._cpu_count_user *)
Definition cpu_count_user (os_cpu_count : Z) (aff : option Z) (cg : option Z) (loky_env : option Z) : result Z :=
  let cpu_count_affinity := (match aff with Some a => a | None => os_cpu_count end) in
  let cpu_count_cgroup := (match cg with Some a => a | None => os_cpu_count end) in
  let cpu_count_loky := (match loky_env with Some a => a | None => os_cpu_count end) in
  Ok ((Z.min (Z.min cpu_count_affinity cpu_count_cgroup) cpu_count_loky)).

(* loky.backend.context.cpu_count (phys = what _count_physical_cores() reports, None = 'not found') *)
Definition cpu_count (os_raw : option Z) (aff : option Z) (cg : option Z) (loky_env : option Z) (phys : option Z) (only_physical_cores : bool) : result Z :=
  let os_cpu_count := (match os_raw with Some c => if c =? 0 then 1 else c | None => 1 end) in
  bind (cpu_count_user os_cpu_count aff cg loky_env) (fun cpu_count_user =>
  let aggregate_cpu_count := (Z.max (Z.min os_cpu_count cpu_count_user) (1)) in
  if (negb only_physical_cores) then (Ok (aggregate_cpu_count)) else (if (cpu_count_user <? os_cpu_count) then (Ok ((Z.max cpu_count_user (1)))) else (let cpu_count_physical := (match phys with Some p => p | None => 0 end) in
  if (match phys with Some _ => true | None => false end) then (Ok (cpu_count_physical)) else (Ok (aggregate_cpu_count))))).
