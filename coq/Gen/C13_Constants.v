(* REGENERATED on every run by harness/gen_c13.py from joblib/compressor.py -- do not edit *)
From Coq Require Import ZArith.
Open Scope Z_scope.
Definition live_MODE_CLOSED : Z := 0.
Definition live_MODE_READ : Z := 1.
Definition live_MODE_READ_EOF : Z := 2.
Definition live_MODE_WRITE : Z := 3.
Definition live_BUFFER_SIZE : Z := 8192.
Definition live_zlib_wbits : Z := 15.
Definition live_gzip_wbits : Z := 31.
