(* REGENERATED on every run by harness/gen_c17.py from the class bodies of joblib/_parallel_backends.py:
   what getattr(backend, "supports_sharedmem", False) / getattr(backend, "uses_threads", False) see for the four built-in
   backend classes (class attribute looked up along the bases written in the class statement; absent = False).
   The two user-defined classes of the check (BCustShm / BCustProc) are defined by the harness itself.  Do not edit. *)
From Coq Require Import ZArith List Bool.
Require Import JV.Base.PyPrelude JV.Model.Config.
Import ListNotations.
Open Scope Z_scope.

Definition src_supports_sharedmem (k : ckind) : bool :=
  match k with | BSeq => true | BThr => true | BLoky => false | BMp => false | BCustShm => true | BCustProc => false end.

Definition src_uses_threads (k : ckind) : bool :=
  match k with | BSeq => true | BThr => true | BLoky => false | BMp => false | BCustShm => true | BCustProc => false end.
