(* REGENERATED on every run by harness/gen_c17.py from
   joblib/parallel.py  (_get_config_param).  Do not edit.
   param / ctxv : None = the key's _Sentinel, Some v = any other value;  dflt = the sentinel's default_value. *)
From Coq Require Import ZArith List Bool.
Require Import JV.Base.PyPrelude.
Import ListNotations.
Open Scope Z_scope.

Definition get_config_param (V : Type) (param : option V) (ctxv : option V) (dflt : V) : result V :=
  match param with
  | Some param => (Ok (param))
  | None => (match ctxv with
  | Some ctxv => (Ok (ctxv))
  | None => (Ok (dflt))
  end)
  end.
Arguments get_config_param {V} param ctxv dflt.
