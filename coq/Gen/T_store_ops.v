(* REGENERATED on every run by harness/gen_c05.py from joblib/_store_backends.py
   (StoreBackendMixin.dump_item, store_metadata, store_cached_func_code, _concurrency_safe_write,
   concurrency_safe_write).  Do not edit. *)
From Coq Require Import List.
Require Import JV.Model.FsModel.
Import ListNotations.

Definition gen_dump_item : list sstmt * handler := ([SEnsure EItem; SSafeWrite EOutput], HSwallow).
Definition gen_store_metadata : list sstmt * handler := ([SCreate EItem; SSafeWrite EMetadata], HSwallow).
Definition gen_store_code : list sstmt * handler := ([SEnsure EFunc; SWriteIfGiven ECode], HPropagate).
Definition gen_csw : list cstmt := [CWriteTmp; CMove].
Definition gen_tmpname : tmpname := TmpThreadPid.
