(* REGENERATED on every run by harness/gen_c07.py from joblib/func_inspect.py (filter_args).
   Do not edit.  Proofs/FilterArgsGen.v proves these equal to the hand model. *)
From Coq Require Import ZArith List Bool.
Require Import JV.Base.PyPrelude JV.Model.FilterArgs.
Import ListNotations.
Open Scope Z_scope.

Definition py_getitem (kwargs : list (name * value)) (k : name) : result value :=
  match kw_lookup k kwargs with Some v => Ok v | None => Raise KeyError end.
Definition is_some_name (o : option name) : bool := match o with Some _ => true | None => false end.

Definition scan_param_gen (st_ : scan) (p : param) : scan :=
  let st_ := (if kind_eqb (pkind p) PosOrKw then (mkScan (sc_names st_ ++ [pname p]) (sc_defaults st_) (sc_kwonly st_) (sc_varargs st_) (sc_varkw st_)) else (if kind_eqb (pkind p) KwOnly then (let st_ := (mkScan (sc_names st_ ++ [pname p]) (sc_defaults st_) (sc_kwonly st_) (sc_varargs st_) (sc_varkw st_)) in mkScan (sc_names st_) (sc_defaults st_) (sc_kwonly st_ ++ [pname p]) (sc_varargs st_) (sc_varkw st_)) else (if kind_eqb (pkind p) VarPos then (mkScan (sc_names st_) (sc_defaults st_) (sc_kwonly st_) (Some (pname p)) (sc_varkw st_)) else (if kind_eqb (pkind p) VarKw then (mkScan (sc_names st_) (sc_defaults st_) (sc_kwonly st_) (sc_varargs st_) (Some (pname p))) else st_)))) in
  let st_ := (match pdefault p with Some d_ => (mkScan (sc_names st_) (sc_defaults st_ ++ [d_]) (sc_kwonly st_) (sc_varargs st_) (sc_varkw st_)) | None => st_ end) in
  st_.

Definition named_step_gen (args : list value) (kwargs : list (name * value)) (arg_kwonlyargs : list name)
    (arg_defaults : list value) (n_arg_names : Z) (arg_position : Z) (arg_name : name) (arg_dict : adict)
  : result adict :=
  (if (arg_position <? (len args)) then (if (negb (name_mem arg_name arg_kwonlyargs)) then (bind (py_index args arg_position) (fun v_ => let arg_dict := dset (KName arg_name) (VOne v_) arg_dict in (Ok arg_dict))) else (Raise ValueError)) else (let position := (arg_position - n_arg_names) in (if (kw_mem arg_name kwargs) then (bind (py_getitem kwargs arg_name) (fun v_ => let arg_dict := dset (KName arg_name) (VOne v_) arg_dict in (Ok arg_dict))) else (match (py_index arg_defaults position) with Ok v_ => let arg_dict := dset (KName arg_name) (VOne v_) arg_dict in (Ok arg_dict) | Raise IndexError => (Raise ValueError) | Raise KeyError => (Raise ValueError) | Raise e_ => Raise e_ end)))).

Definition kw_step_gen (arg_varkw : option name) (arg_name : name) (arg_value : value) (arg_dict : adict)
    (varkwargs : list (name * value)) : result (adict * list (name * value)) :=
  (if (dmem (KName arg_name) arg_dict) then (bind (Ok arg_value) (fun v_ => let arg_dict := dset (KName arg_name) (VOne v_) arg_dict in (Ok (arg_dict, varkwargs)))) else (if (is_some_name arg_varkw) then (let varkwargs := varkwargs ++ [(arg_name, arg_value)] in (Ok (arg_dict, varkwargs))) else (Raise TypeError))).

Definition ignore_step_gen (item : key) (arg_dict : adict) : result adict :=
  (if (dmem item arg_dict) then (let arg_dict := dpop item arg_dict in (Ok arg_dict)) else (Raise ValueError)).

(* 1 = arg_dict['**'] = varkwargs, 2 = arg_dict['*'] = args[arg_position + 1:] *)
Definition tail_order_gen : list Z := [1; 2].

Definition takes_fallback_gen (is_method is_function : bool) : bool :=
  ((negb is_method) && (negb is_function)).
