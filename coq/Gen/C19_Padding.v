(* REGENERATED on every run by harness/gen_c19.py from
   joblib/numpy_pickle.py (NumpyArrayWrapper.write_array / read_array / read_mmap).  Do not edit. *)
From Coq Require Import ZArith List Bool.
Require Import JV.Base.PyPrelude.
Import ListNotations.
Open Scope Z_scope.

Definition writer_padding (A : Z) (pos : Z) : result Z :=
  let current_pos := pos in
  let pos_after_padding_byte := (current_pos + (1)) in
  bind (bind (py_mod pos_after_padding_byte A) (fun v_1 => Ok ((A - v_1)))) (fun padding_length =>
  Ok (padding_length)).

Definition writer_buffersize (itemsize : Z) : result Z :=
  bind (bind (py_floordiv ((16) * (1048576)) itemsize) (fun v_1 => Ok ((Z.max v_1 (1))))) (fun buffersize =>
  Ok (buffersize)).

Definition writer_writes_padding (padding_length : Z) : result bool :=
  Ok ((negb (padding_length =? (0)))).

Definition reader_skips (padding_length : Z) : result bool :=
  Ok ((negb (padding_length =? (0)))).

Definition max_read_count (buffer_size : Z) (itemsize : Z) : result Z :=
  bind (py_floordiv buffer_size (Z.min buffer_size itemsize)) (fun max_read_count =>
  Ok (max_read_count)).

Definition chunk_step (mrc : Z) (itemsize : Z) (count : Z) (i : Z) : result (Z * Z) :=
  let read_count := (Z.min mrc (count - i)) in
  let read_size := (read_count * itemsize) in
  Ok (read_count, read_size).

Definition mmap_offset (pos : Z) (padding_length : Z) : result Z :=
  let current_pos := pos in
  let offset := current_pos in
  let offset := (offset + (padding_length + (1))) in
  Ok (offset).

Definition mmap_end (offset : Z) (nbytes : Z) : result Z :=
  Ok ((offset + nbytes)).

Definition reduce_args (a_start : Z) (a_end : Z) (m_start : Z) (m_offset : Z) (itemsize : Z) (m_f : bool) (a_f : bool) (a_c : bool) : result (Z * Z * option Z * option Z) :=
  let offset := (a_start - m_start) in
  let offset := (offset + m_offset) in
  bind (if m_f then (let order := (1) in
  Ok order) else (let order := (0) in
  Ok order)) (fun order =>
  bind (if (a_f || a_c) then (let strides := None in
  let total_buffer_len := None in
  bind (if (a_f && (negb a_c)) then (let order := (1) in
  Ok order) else (let order := (0) in
  Ok order)) (fun order =>
  Ok (strides, total_buffer_len, order))) else (let strides := (1) in
  bind (py_floordiv (a_end - a_start) itemsize) (fun total_buffer_len =>
  Ok (Some strides, Some total_buffer_len, order)))) (fun '(strides, total_buffer_len, order) =>
  Ok (offset, order, strides, total_buffer_len))).

Definition forward_memmaps (hasobject : bool) (dtype_kind : Z) (max_nbytes : option Z) (mmap_mode : option Z) (nbytes : Z) : result bool :=
  Ok (((negb hasobject) && (match max_nbytes with None => false | Some max_nbytes => (match mmap_mode with None => false | Some mmap_mode => (nbytes >? max_nbytes) end) end))).

(* numpy 2.4.6 used by the implementation side: hasattr(numpy.ndarray, '__array_prepare__') *)
Definition numpy_has_array_prepare : bool := false.
