(* REGENERATED on every run by harness/gen_c18.py from
   joblib/_store_backends.py  (StoreBackendMixin._get_items_to_delete).  Do not edit. *)
From Coq Require Import ZArith List Bool.
Require Import JV.Base.PyPrelude.
Import ListNotations.
Open Scope Z_scope.

Definition get_items_to_delete (now : Z) (items : list item) (bytes_limit : option Z) (items_limit : option Z) (age_limit : option Z) : result (list item) :=
  if (negb (negb (is_nil items))) then (Ok ([])) else (let size := (sum_map (fun item => isize item) items) in
  bind (match bytes_limit with
  | Some bytes_limit => (let to_delete_size := (size - bytes_limit) in
  Ok to_delete_size)
  | None => (let to_delete_size := (0) in
  Ok to_delete_size)
  end) (fun to_delete_size =>
  bind (match items_limit with
  | Some items_limit => (let to_delete_items := ((len items) - items_limit) in
  Ok to_delete_items)
  | None => (let to_delete_items := (0) in
  Ok to_delete_items)
  end) (fun to_delete_items =>
  bind (match age_limit with
  | Some age_limit => (bind (min_map (fun item => iatime item) items) (fun older_item =>
  if (age_limit <? (0)) then (Raise ValueError) else (let deadline := (now - age_limit) in
  Ok (Some older_item, Some deadline))))
  | None => (let deadline := None in
  Ok (None, deadline))
  end) (fun '(older_item, deadline) =>
  bind ((if (to_delete_size <=? (0)) then (if (to_delete_items <=? (0)) then (match deadline with None => Ok true | Some deadline => bind (getvar older_item) (fun v_1 => Ok ((v_1 >? deadline))) end) else Ok false) else Ok false)) (fun c_2 => if c_2 then (Ok ([])) else (let items := sort_by iatime items in
  let items_to_delete := [] in
  let size_so_far := (0) in
  let items_so_far := (0) in
  bind ((fix loop (l__ : list item) (st__ : _) {struct l__} : result _ :=
    let '(items_to_delete, size_so_far, items_so_far) := st__ in
    match l__ with
    | [] => Ok (items_to_delete, size_so_far, items_so_far)
    | item :: rest__ =>
      if ((size_so_far >=? to_delete_size) && ((items_so_far >=? to_delete_items) && (match deadline with None => true | Some deadline => (deadline <? iatime item) end))) then Ok (items_to_delete, size_so_far, items_so_far) else
      let items_to_delete := items_to_delete ++ [item] in
      let size_so_far := (size_so_far + isize item) in
      let items_so_far := (items_so_far + (1)) in
      loop rest__ (items_to_delete, size_so_far, items_so_far)
    end) items (items_to_delete, size_so_far, items_so_far)) (fun '(items_to_delete, size_so_far, items_so_far) =>
  Ok (items_to_delete)))))))).
