(* REGENERATED on every run by harness/gen_c15.py from joblib/parallel.py (Parallel.__call__).  Do not edit.
   n_jobs = what _initialize_backend() / _effective_n_jobs() returned for this call, WHATEVER the backend is. *)
From Coq Require Import ZArith List Bool.
Require Import JV.Base.PyPrelude.
Open Scope Z_scope.

Definition call_runs_inline (n_jobs : Z) : bool := (n_jobs =? (1)).
