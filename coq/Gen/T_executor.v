(* REGENERATED on every run by harness/gen_c15.py from joblib/externals/loky/reusable_executor.py
   (_ReusablePoolExecutor._resize: the test under which a resize is skipped; get_reusable_executor: the test under which
   a new executor replaces the current one) and joblib/executor.py (get_memmapping_executor: the reuse decision).
   Do not edit. *)
From Coq Require Import ZArith List Bool.
Require Import JV.Base.PyPrelude.
Import ListNotations.
Open Scope Z_scope.

(* _resize returns without doing anything when ... *)
Definition resize_noop (max_workers cur : Z) : bool := (max_workers =? cur).

(* get_reusable_executor shuts the current executor down and builds a new one when ... *)
Definition needs_new (broken shutdown reuse : bool) : bool := (broken || (shutdown || (negb reuse))).

(* get_memmapping_executor asks to reuse the executor when ... *)
Definition args_reuse (args_none args_equal : bool) : bool := (args_none || args_equal).

(* the executor that replaces one which cannot be reused (broken, shut down, other arguments) is built with the requested
   max_workers on every path (no reassignment of max_workers in that branch) *)
Definition replacement_size_is_requested : bool := true.
