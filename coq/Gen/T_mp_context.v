(* REGENERATED on every run by harness/gen_c17.py from joblib/parallel.py (Parallel.__init__: every assignment to
   self._backend_kwargs["context"], in source order, with its guard) and joblib/_parallel_backends.py (abort_everything of
   PoolManagerMixin and LokyBackend: does the reconfiguration pass **self.parallel._backend_kwargs?).  Do not edit.
   env = DEFAULT_MP_CONTEXT (JOBLIB_START_METHOD, read at import), arg = a multiprocessing context object passed as `backend=`,
   dflt = mp.get_context(); values are start-method codes. *)
From Coq Require Import ZArith List Bool.
Require Import JV.Base.PyPrelude.
Import ListNotations.
Open Scope Z_scope.

Definition src_mp_context (env arg : option Z) (dflt : Z) : option Z :=
  let ctx := None in
  let ctx := if (match env with Some _ => true | None => false end) then env else if true then Some dflt else ctx in
  let ctx := if (match arg with Some _ => false | None => true end) then ctx else if false then ctx else if (match arg with Some _ => true | None => false end) then arg else ctx in
  ctx.

Definition pool_abort_passes_kwargs : bool := true.
Definition loky_abort_passes_kwargs : bool := true.

(* Parallel.__init__: with n_jobs given neither by the call nor by the context, default_n_jobs is read from the backend the
   call really uses (true) or from the active backend of the enclosing context (false) *)
Definition default_njobs_of_used_backend : bool := true.

(* BatchedCalls.__reduce__: the pickled batch keeps the (nested backend, nested n_jobs) pair *)
Definition reduce_keeps_njobs : bool := true.

(* LokyBackend.configure: the idle-worker timeout handed to the executor; idle_worker_timeout = the value passed by the call
   (None = not passed), obj = the one carried by the backend object *)
Definition src_idle_worker_timeout (idle_worker_timeout : option Z) (obj : option Z) : result Z :=
  bind (match idle_worker_timeout with
  | Some idle_worker_timeout => (Ok idle_worker_timeout)
  | None => (let idle_worker_timeout := (match obj with Some v => v | None => 300 end) in
  Ok idle_worker_timeout)
  end) (fun idle_worker_timeout =>
  Ok (idle_worker_timeout)).
