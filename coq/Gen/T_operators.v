(* REGENERATED on every run by harness/gen_c09.py from joblib/_utils.py (the dict `operators` used by
   eval_expr / eval_).  Do not edit. *)
Require Import JV.Model.PreDispatch.

Definition src_operators (o : bop) : pyop :=
  match o with
  | OAdd => PAdd
  | OSub => PSub
  | OMul => PMul
  | ODiv => PTrueDiv
  | OFloorDiv => PFloorDiv
  | OMod => PMod
  | OPow => PPow
  end.

Definition src_neg : pyop := PNeg.
