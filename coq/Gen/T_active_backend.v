(* REGENERATED on every run by harness/gen_c17.py from
   joblib/parallel.py  (_get_active_backend).  Do not edit.  The reading table is in gen_c17.py. *)
From Coq Require Import ZArith List Bool.
Require Import JV.Base.PyPrelude JV.Model.Config.
Import ListNotations.
Open Scope Z_scope.

Definition src_get_active_backend (dk : ckind) (prefer : option Z) (require : option Z) (verbose : option Z) (backend_config : config) : result (cbk * config) :=
  let backend := (gcp None (option_map Some (c_backend backend_config)) None) in
  let prefer := (gcp prefer (c_prefer backend_config) d_prefer) in
  let require := (gcp require (c_require backend_config) d_require) in
  let verbose := (gcp verbose (c_verbose backend_config) d_verbose) in
  if (negb (valid_prefer prefer)) then (Raise ValueError) else (if (negb (valid_require require)) then (Raise ValueError) else (if ((prefer =? 2) && (require =? 1)) then (Raise ValueError) else (let explicit_backend := true in
  bind (match backend with
  | Some backend => (Ok (backend, explicit_backend))
  | None => (let backend := {| ck := dk; clevel := 0 |} in
  let explicit_backend := false in
  Ok (backend, explicit_backend))
  end) (fun '(backend, explicit_backend) =>
  let nesting_level := clevel backend in
  let uses_threads := (uses_threads (ck backend)) in
  let supports_sharedmem := (supports_sharedmem (ck backend)) in
  let force_threads := (((require =? 1) && (negb supports_sharedmem)) || ((negb explicit_backend) && ((prefer =? 1) && (negb uses_threads)))) in
  let force_processes := ((negb explicit_backend) && ((prefer =? 2) && uses_threads)) in
  if force_threads then (let sharedmem_backend := {| ck := BThr; clevel := nesting_level |} in
  let thread_config := backend_config in
  let thread_config := (set_njobs thread_config (Some (Some (1)))) in
  Ok ((sharedmem_backend, thread_config))) else (if force_processes then (let process_backend := {| ck := BLoky; clevel := nesting_level |} in
  Ok ((process_backend, backend_config))) else (Ok ((backend, backend_config)))))))).
