(* REGENERATED on every run by harness/gen_c03.py from the live joblib (compressor._COMPRESSORS, numpy_pickle, numpy_pickle_utils) and CPython's pickletools.  Do not edit. *)
From Coq Require Import ZArith List Bool.
Import ListNotations.
Open Scope Z_scope.

(* (name, magic prefix, file extension, fileobj_factory is not None), in registration order;
   strings are lists of code points, byte strings lists of byte values *)
Definition registry : list (list Z * list Z * list Z * bool) :=
  [
  ([122; 108; 105; 98], [120], [46; 122], true) (* zlib .z *);
  ([103; 122; 105; 112], [31; 139], [46; 103; 122], true) (* gzip .gz *);
  ([98; 122; 50], [66; 90], [46; 98; 122; 50], true) (* bz2 .bz2 *);
  ([108; 122; 109; 97], [93; 0], [46; 108; 122; 109; 97], true) (* lzma .lzma *);
  ([120; 122], [253; 55; 122; 88; 90], [46; 120; 122], true) (* xz .xz *);
  ([108; 122; 52], [4; 34; 77; 24], [46; 108; 122; 52], false) (* lz4 .lz4 *)
  ].
Definition zfile_prefix : list Z := [90; 70].
Definition lz4_installed : bool := false.
Definition NUMPY_ARRAY_ALIGNMENT_BYTES : Z := 16.
Definition BUFFER_SIZE : Z := 262144.
Definition IO_BUFFER_SIZE : Z := 1048576.
Definition live_max_prefix_len : nat := 5.
(* CPython pickle opcodes of protocol 0/1: (byte, takes no argument) *)
Definition pickle_ops01 : list (Z * bool) :=
  [(73, false); (74, false); (75, false); (77, false); (76, false); (83, false); (84, false); (85, false); (78, true); (86, false); (88, false); (70, false); (71, false); (93, true); (97, true); (101, true); (108, true); (41, true); (116, true); (125, true); (100, true); (115, true); (117, true); (48, true); (50, true); (40, true); (49, true); (103, false); (104, false); (106, false); (112, false); (113, false); (114, false); (99, false); (82, true); (98, true); (105, false); (111, true); (46, true); (80, false); (81, true)].
Definition pickle_highest_protocol : Z := 5.
(* literals of numpy_pickle.dump / numpy_pickle_utils._write_fileobject, read off the source by AST pattern *)
Definition dump_default_method : list Z := [122; 108; 105; 98]. (* compress_method = 'zlib' *)
Definition dump_lz4_literal : list Z := [108; 122; 52]. (* compress_method == 'lz4' and lz4 is None *)
Definition dump_level_stop : Z := 10. (* compress_level not in range(10) *)
Definition write_fallback_method : list Z := [122; 108; 105; 98]. (* _COMPRESSORS['zlib'] in _write_fileobject's else branch *)
