(* Properties of the stable insertion sort [sort_by] of PyPrelude (model of list.sort(key=...)). *)
From Coq Require Import ZArith List Bool Lia Sorting.Permutation Sorting.Sorted.
Require Import JV.Base.PyPrelude.
Import ListNotations.
Open Scope Z_scope.

Section S.
Context {A : Type} (key : A -> Z).

Definition le_key (a b : A) : Prop := key a <= key b.
Definition sorted_by (l : list A) : Prop := StronglySorted le_key l.
Definition keyis (k : Z) (x : A) : bool := key x =? k.

Lemma insert_by_perm x l : Permutation (insert_by key x l) (x :: l).
Proof.
  induction l as [|y t IH]; cbn [insert_by]; [reflexivity|].
  destruct (key x <? key y); [reflexivity|].
  rewrite IH. apply perm_swap.
Qed.

Lemma insert_by_sorted x l : sorted_by l -> sorted_by (insert_by key x l).
Proof.
  unfold sorted_by. induction l as [|y t IH]; cbn [insert_by]; intros Hs.
  - constructor; constructor.
  - destruct (key x <? key y) eqn:E.
    + constructor; [exact Hs|]. inversion Hs as [|? ? Hs' Hall]; subst.
      constructor; [unfold le_key; lia|].
      eapply Forall_impl; [|exact Hall]. unfold le_key. intros a Ha. lia.
    + inversion Hs as [|? ? Hs' Hall]; subst. constructor; [apply IH; exact Hs'|].
      eapply Permutation_Forall; [symmetry; apply insert_by_perm|].
      constructor; [unfold le_key; lia | exact Hall].
Qed.

Lemma filter_none_above k l : Forall (fun a => k < key a) l -> filter (keyis k) l = [].
Proof.
  induction 1 as [|a l Ha _ IH]; cbn; [reflexivity|].
  unfold keyis at 1. destruct (key a =? k) eqn:E; [lia | exact IH].
Qed.

Lemma insert_by_filter k x l : sorted_by l ->
  filter (keyis k) (insert_by key x l) = filter (keyis k) l ++ (if keyis k x then [x] else []).
Proof.
  unfold sorted_by. induction l as [|y t IH]; cbn [insert_by]; intros Hs.
  - cbn. destruct (keyis k x); reflexivity.
  - inversion Hs as [|? ? Hs' Hall]; subst.
    destruct (key x <? key y) eqn:E.
    + cbn [filter]. destruct (keyis k x) eqn:Ex.
      * (* k = key x < key y <= everything in t *)
        assert (Hy : keyis k y = false) by (unfold keyis in *; lia).
        rewrite Hy. rewrite filter_none_above; [reflexivity|].
        eapply Forall_impl; [|exact Hall]. unfold le_key, keyis in *. intros a Ha. lia.
      * rewrite app_nil_r. reflexivity.
    + cbn [filter]. rewrite (IH Hs'). destruct (keyis k y); reflexivity.
Qed.

Lemma sort_by_rev_perm l : forall acc, Permutation (sort_by_rev key l acc) (acc ++ l).
Proof.
  induction l as [|x t IH]; intros acc; cbn [sort_by_rev].
  - rewrite app_nil_r. reflexivity.
  - rewrite IH. rewrite insert_by_perm. cbn. apply Permutation_middle.
Qed.

Lemma sort_by_rev_sorted l : forall acc, sorted_by acc -> sorted_by (sort_by_rev key l acc).
Proof.
  induction l as [|x t IH]; intros acc Ha; cbn [sort_by_rev]; [exact Ha|].
  apply IH. apply insert_by_sorted. exact Ha.
Qed.

Lemma sort_by_rev_filter k l : forall acc, sorted_by acc ->
  filter (keyis k) (sort_by_rev key l acc) = filter (keyis k) acc ++ filter (keyis k) l.
Proof.
  induction l as [|x t IH]; intros acc Ha; cbn [sort_by_rev].
  - cbn. rewrite app_nil_r. reflexivity.
  - rewrite IH by (apply insert_by_sorted; exact Ha).
    rewrite insert_by_filter by exact Ha. cbn [filter].
    destruct (keyis k x); rewrite <- app_assoc; reflexivity.
Qed.

Theorem sort_by_perm l : Permutation (sort_by key l) l.
Proof. unfold sort_by. rewrite sort_by_rev_perm. reflexivity. Qed.

Theorem sort_by_sorted l : sorted_by (sort_by key l).
Proof. unfold sort_by. apply sort_by_rev_sorted. constructor. Qed.

(* stability: elements with equal keys keep their original relative order *)
Theorem sort_by_stable k l : filter (keyis k) (sort_by key l) = filter (keyis k) l.
Proof. unfold sort_by. rewrite sort_by_rev_filter by constructor. reflexivity. Qed.

Lemma sort_by_length l : length (sort_by key l) = length l.
Proof. apply Permutation_length, sort_by_perm. Qed.

Lemma sort_by_nil_iff l : sort_by key l = [] <-> l = [].
Proof.
  split; intros H.
  - pose proof (sort_by_length l) as E. rewrite H in E. destruct l; [reflexivity | discriminate].
  - subst. reflexivity.
Qed.

End S.
