(* C08: an executable MD5 (RFC 1321) over lists of byte values, used ONLY to instantiate the
   Section variable [md5] of Model/HashEnc.v when the model is evaluated against the live code
   (the mixed-kind fallback of joblib.hashing sorts md5 hex digests).  The theorems of C08 are
   parametric in md5 and never mention this file.  The check compares [md5_hex] with hashlib.md5
   on every digest it needs.  Definitions only. *)
From Coq Require Import ZArith List Bool.
Import ListNotations.
Open Scope Z_scope.

Definition w32 : Z := 4294967296.
Definition add32 (a b : Z) : Z := (a + b) mod w32.
Definition not32 (a : Z) : Z := w32 - 1 - a.
Definition rotl32 (x : Z) (c : Z) : Z :=
  Z.lor ((Z.shiftl x c) mod w32) (Z.shiftr x (32 - c)).

Definition md5_K : list Z :=
  [3614090360; 3905402710; 606105819; 3250441966; 4118548399; 1200080426; 2821735955; 4249261313;
   1770035416; 2336552879; 4294925233; 2304563134; 1804603682; 4254626195; 2792965006; 1236535329;
   4129170786; 3225465664; 643717713; 3921069994; 3593408605; 38016083; 3634488961; 3889429448;
   568446438; 3275163606; 4107603335; 1163531501; 2850285829; 4243563512; 1735328473; 2368359562;
   4294588738; 2272392833; 1839030562; 4259657740; 2763975236; 1272893353; 4139469664; 3200236656;
   681279174; 3936430074; 3572445317; 76029189; 3654602809; 3873151461; 530742520; 3299628645;
   4096336452; 1126891415; 2878612391; 4237533241; 1700485571; 2399980690; 4293915773; 2240044497;
   1873313359; 4264355552; 2734768916; 1309151649; 4149444226; 3174756917; 718787259; 3951481745].

Definition md5_S : list Z :=
  [7; 12; 17; 22; 7; 12; 17; 22; 7; 12; 17; 22; 7; 12; 17; 22;
   5; 9; 14; 20; 5; 9; 14; 20; 5; 9; 14; 20; 5; 9; 14; 20;
   4; 11; 16; 23; 4; 11; 16; 23; 4; 11; 16; 23; 4; 11; 16; 23;
   6; 10; 15; 21; 6; 10; 15; 21; 6; 10; 15; 21; 6; 10; 15; 21].

Fixpoint md5_le_bytes (n : nat) (u : Z) : list Z :=
  match n with O => [] | S k => (u mod 256) :: md5_le_bytes k (u / 256) end.

Fixpoint md5_words (n : nat) (bs : list Z) : list Z :=
  match n with
  | O => []
  | S k => match bs with
           | b0 :: b1 :: b2 :: b3 :: t => (b0 + 256 * b1 + 65536 * b2 + 16777216 * b3) :: md5_words k t
           | _ => []
           end
  end.

Definition md5_round (M : list Z) (st : Z * Z * Z * Z) (i : Z) : Z * Z * Z * Z :=
  let '(a, b, c, d) := st in
  let '(f, g) :=
    if i <? 16 then (Z.lor (Z.land b c) (Z.land (not32 b) d), i)
    else if i <? 32 then (Z.lor (Z.land d b) (Z.land (not32 d) c), (5 * i + 1) mod 16)
    else if i <? 48 then (Z.lxor (Z.lxor b c) d, (3 * i + 5) mod 16)
    else (Z.lxor c (Z.lor b (not32 d)), (7 * i) mod 16) in
  let f' := add32 (add32 (add32 f a) (nth (Z.to_nat i) md5_K 0)) (nth (Z.to_nat g) M 0) in
  (d, add32 b (rotl32 f' (nth (Z.to_nat i) md5_S 0)), b, c).

Definition md5_idx : list Z := map Z.of_nat (seq 0 64).

Definition md5_block (h : Z * Z * Z * Z) (blk : list Z) : Z * Z * Z * Z :=
  let M := md5_words 16 blk in
  let '(a0, b0, c0, d0) := h in
  let '(a, b, c, d) := fold_left (md5_round M) md5_idx h in
  (add32 a0 a, add32 b0 b, add32 c0 c, add32 d0 d).

Fixpoint md5_blocks (fuel : nat) (h : Z * Z * Z * Z) (bs : list Z) : Z * Z * Z * Z :=
  match fuel with
  | O => h
  | S f => match bs with
           | [] => h
           | _ => md5_blocks f (md5_block h (firstn 64 bs)) (skipn 64 bs)
           end
  end.

Definition md5_pad (msg : list Z) : list Z :=
  let n := Z.of_nat (length msg) in
  let z := (55 - n) mod 64 in
  msg ++ [128] ++ repeat 0 (Z.to_nat z) ++ md5_le_bytes 8 (8 * n).

Definition md5_raw (msg : list Z) : list Z :=
  let p := md5_pad msg in
  let '(a, b, c, d) := md5_blocks (S (length p)) (1732584193, 4023233417, 2562383102, 271733878) p in
  md5_le_bytes 4 a ++ md5_le_bytes 4 b ++ md5_le_bytes 4 c ++ md5_le_bytes 4 d.

Definition hex_digit (n : Z) : Z := if n <? 10 then 48 + n else 87 + n.

(* hashlib.md5(msg).hexdigest() as the list of its 32 ASCII codes *)
Definition md5_hex (msg : list Z) : list Z :=
  flat_map (fun b => [hex_digit (b / 16); hex_digit (b mod 16)]) (md5_raw msg).
