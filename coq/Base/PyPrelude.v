(* Shared vocabulary of the models: Python-ish results, exceptions, list helpers.
   Executable definitions only. *)
From Coq Require Import ZArith List Bool.
Import ListNotations.
Open Scope Z_scope.

Inductive exn :=
| ValueError | TypeError | KeyError | IndexError | AttributeError | RuntimeError
| UnboundLocalError | FileNotFoundError | EOFError | OSError | TimeoutError
| ZeroDivisionError | StopIteration | OtherError (code : Z).

Inductive result (A : Type) :=
| Ok (a : A)
| Raise (e : exn).
Arguments Ok {A} a.
Arguments Raise {A} e.

Definition bind {A B} (r : result A) (f : A -> result B) : result B :=
  match r with Ok a => f a | Raise e => Raise e end.

Definition rmap {A B} (f : A -> B) (r : result A) : result B :=
  match r with Ok a => Ok (f a) | Raise e => Raise e end.

(* reading a local variable that is bound on some paths only *)
Definition getvar {A} (v : option A) : result A :=
  match v with Some a => Ok a | None => Raise UnboundLocalError end.

Definition sum_map {A} (f : A -> Z) (l : list A) : Z :=
  fold_left (fun acc x => acc + f x) l 0.

(* Python's min(generator): ValueError on an empty sequence; first minimum wins *)
Definition min_map {A} (f : A -> Z) (l : list A) : result Z :=
  match l with
  | [] => Raise ValueError
  | x :: t => Ok (fold_left (fun acc y => if f y <? acc then f y else acc) t (f x))
  end.

Definition max_map {A} (f : A -> Z) (l : list A) : result Z :=
  match l with
  | [] => Raise ValueError
  | x :: t => Ok (fold_left (fun acc y => if acc <? f y then f y else acc) t (f x))
  end.

Definition len {A} (l : list A) : Z := Z.of_nat (length l).

Definition is_nil {A} (l : list A) : bool := match l with [] => true | _ => false end.

(* Python's list.sort(key=...) is stable: insertion sort inserting after equal keys *)
Fixpoint insert_by {A} (key : A -> Z) (x : A) (l : list A) : list A :=
  match l with
  | [] => [x]
  | y :: t => if key x <? key y then x :: y :: t else y :: insert_by key x t
  end.

Fixpoint sort_by_rev {A} (key : A -> Z) (l : list A) (acc : list A) : list A :=
  match l with
  | [] => acc
  | x :: t => sort_by_rev key t (insert_by key x acc)
  end.

(* insert elements left to right; an element goes after all elements with key <= its own,
   so equal keys keep their original relative order *)
Definition sort_by {A} (key : A -> Z) (l : list A) : list A := sort_by_rev key l [].

(* Python floor division and modulo coincide with Coq's Z.div / Z.modulo for every sign *)
Definition py_floordiv (a b : Z) : result Z := if b =? 0 then Raise ZeroDivisionError else Ok (a / b).
Definition py_mod (a b : Z) : result Z := if b =? 0 then Raise ZeroDivisionError else Ok (a mod b).

(* cache item as seen by StoreBackendMixin._get_items_to_delete *)
Record item := { ipath : Z; isize : Z; iatime : Z }.
