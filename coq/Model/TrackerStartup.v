(* M10c -- signals and the start-up of the loky resource tracker
   (joblib/externals/loky/backend/resource_tracker.py).

   ensure_running():  pthread_sigmask(SIG_BLOCK, (SIGINT, SIGTERM)); pid = spawnv_passfds(...);
                      finally pthread_sigmask(SIG_UNBLOCK, ...)        -> [spawn masked]
   main():            signal.signal(SIGINT, SIG_IGN); signal.signal(SIGTERM, SIG_IGN);
                      pthread_sigmask(SIG_UNBLOCK, (SIGINT, SIGTERM))  -> [code_startup]
   then the request loop (no further change of dispositions or mask)    -> pc = []

   POSIX semantics used (per signal): the mask is inherited through fork+exec; a caught signal
   is reset to its default action by exec (so the child starts with "not ignored"; for SIGINT
   CPython then installs default_int_handler, whose KeyboardInterrupt ends main() during start-up
   just as the default action would); a signal generated while blocked stays pending; setting
   SIG_IGN discards a pending signal; unblocking delivers a pending signal: discarded if ignored,
   otherwise the process terminates.  Executable definitions only. *)
From Coq Require Import List Bool.
Import ListNotations.

Inductive sig := SIGINT | SIGTERM.

Record sigstate := { blocked : bool; ignored : bool; pending : bool }.

Inductive instr :=
| IIgnore (s : sig)        (* signal.signal(s, SIG_IGN) *)
| IUnblock.                (* pthread_sigmask(SIG_UNBLOCK, (SIGINT, SIGTERM)) *)

Record proc := { p_int : sigstate; p_term : sigstate; p_alive : bool; p_pc : list instr }.

Definition get (p : proc) (s : sig) : sigstate := match s with SIGINT => p_int p | SIGTERM => p_term p end.
Definition set (p : proc) (s : sig) (st : sigstate) : proc :=
  match s with
  | SIGINT => {| p_int := st; p_term := p_term p; p_alive := p_alive p; p_pc := p_pc p |}
  | SIGTERM => {| p_int := p_int p; p_term := st; p_alive := p_alive p; p_pc := p_pc p |}
  end.
Definition die (p : proc) : proc := {| p_int := p_int p; p_term := p_term p; p_alive := false; p_pc := p_pc p |}.
Definition with_pc (p : proc) (pc : list instr) : proc :=
  {| p_int := p_int p; p_term := p_term p; p_alive := p_alive p; p_pc := pc |}.

(* the start-up sequence of main() as it is in the code, and with the two parts swapped *)
Definition code_startup : list instr := [IIgnore SIGINT; IIgnore SIGTERM; IUnblock].
Definition swapped_startup : list instr := [IUnblock; IIgnore SIGINT; IIgnore SIGTERM].

(* the freshly exec'ed tracker: mask inherited from ensure_running (masked = _HAVE_SIGMASK) *)
Definition spawn (masked : bool) (pc : list instr) : proc :=
  let st := {| blocked := masked; ignored := false; pending := false |} in
  {| p_int := st; p_term := st; p_alive := true; p_pc := pc |}.

(* a signal is generated for the process (kill(pid), killpg, ^C in the terminal, killall) *)
Definition arrive (p : proc) (s : sig) : proc :=
  if negb (p_alive p) then p else
  let st := get p s in
  if blocked st then set p s {| blocked := true; ignored := ignored st; pending := true |}
  else if ignored st then p
  else die p.

Definition unblock1 (p : proc) (s : sig) : proc :=
  let st := get p s in
  let p' := set p s {| blocked := false; ignored := ignored st; pending := false |} in
  if pending st && negb (ignored st) then die p' else p'.

Definition exec1 (p : proc) : proc :=
  if negb (p_alive p) then p else
  match p_pc p with
  | [] => p                                  (* serving requests *)
  | IIgnore s :: rest =>
      let st := get p s in
      with_pc (set p s {| blocked := blocked st; ignored := true; pending := false |}) rest
  | IUnblock :: rest => with_pc (unblock1 (unblock1 p SIGINT) SIGTERM) rest
  end.

Inductive sev := SSignal (s : sig) | SStep.

Definition sstep (p : proc) (e : sev) : proc :=
  match e with SSignal s => arrive p s | SStep => exec1 p end.

Definition run_sched (p : proc) (sched : list sev) : proc := fold_left sstep sched p.
