(* A table-driven instance of M4 (Model/MemoryCore.v), used
   - by the correspondence check: the harness observes, for every call of a generated history,
     the class of its real args_id (or that _get_args_id raised) and the class of its binding
     under inspect.signature.bind, and runs the model on exactly these data;
   - for the concrete witnesses of the refuted statements.
   Executable definitions only.

   call    = (observed key class, or None when _get_args_id raises,
              Some (binding id, binding id after dropping ignored parameters), or None when
              Python itself rejects the call)
   value   = (source text that computed it, class of the binding outside the ignore list)
             -- what the generated functions return: their bound arguments minus the ignored ones
   source texts, paths: natural numbers; object k has text [nth k codes 0], file [nth k paths 0]. *)
From Coq Require Import List Bool Arith.
Require Import JV.Base.PyPrelude JV.Model.MemoryCore.
Import ListNotations.

Definition tcall : Type := option nat * option (nat * nat).
Definition tvalue : Type := nat * nat.

Definition tab_cfg (codes paths : list nat) (nameds : list bool)
  : cfg tcall nat nat (nat * nat) nat tvalue nat :=
  {| canonicalise := fun c => match fst c with Some n => Ok n | None => Raise ValueError end;
     bind_spec := fun c => snd c;
     restrict := fun b => snd b;
     digest_of := fun n => n;
     digest_eqb := Nat.eqb;
     src_eqb := Nat.eqb;
     code := fun k => nth k codes 0;
     path_of := fun k => nth k paths 0;
     named := fun k => nth k nameds true;
     f := fun s b => (s, snd b) |}.

Definition tevent := event tcall nat.

(* a plain call with argument a (C12: the argument is its own key and binding) *)
Definition arg (a : nat) : tcall := (Some a, Some (a, a)).

(* F10: versions 1 and 2 in their own files, both alive; 1 is called again after 2 was called *)
Definition f10_cfg := tab_cfg [0; 1; 2] [0; 1; 2] [].
Definition f10_history : list tevent :=
  [Define 1; Wrap 1; Define 2; Wrap 2; Call 1 (arg 0) true; Call 2 (arg 0) true; Call 1 (arg 0) true].

(* the source file is overwritten by version 2 before the wrapper of version 1 first reads it *)
Definition samefile_cfg := tab_cfg [0; 1; 2] [0; 0; 0] [].
Definition samefile_history : list tevent :=
  [Define 1; Wrap 1; Define 2; Wrap 2; Call 1 (arg 0) true; Call 2 (arg 0) true].

(* F1  h(a, /, b): h(1,2) and h(1,3) are both keyed {'b': 1}   (one key class, two bindings)
   F2  g(a=1, b=2, *, c): g(5, c=0) is keyed {'a':5,'b':1,'c':0}, the key of g(5, 1, c=0)
   F3  f(a, *args, b): f(1, 2, 3, b=4) raises ValueError in _get_args_id *)
Definition one_cfg := tab_cfg [] [] [].
Definition f1_c1 : tcall := (Some 0, Some (0, 0)).
Definition f1_c2 : tcall := (Some 0, Some (1, 1)).
Definition f2_c1 : tcall := (Some 0, Some (0, 0)).   (* g(5, c=0)    binds (5,2,0) *)
Definition f2_c2 : tcall := (Some 0, Some (1, 1)).   (* g(5, 1, c=0) binds (5,1,0) *)
Definition f2_c3 : tcall := (Some 1, Some (0, 0)).   (* g(5, 2, c=0) binds (5,2,0), keyed b=2 *)
Definition f3_c : tcall := (None, Some (0, 0)).

(* an instance on which every interface hypothesis holds: a call is (binding id, class of the
   binding outside the ignore list), keyed by that class; the function ignores what it asked
   to ignore; one source text *)
Definition ideal_cfg : cfg (nat * nat) nat nat (nat * nat) nat tvalue nat :=
  {| canonicalise := fun c => Ok (snd c);
     bind_spec := fun c => Some c;
     restrict := fun b => snd b;
     digest_of := fun n => n;
     digest_eqb := Nat.eqb;
     src_eqb := Nat.eqb;
     code := fun _ => 7;
     path_of := fun k => k;
     named := fun _ => true;
     f := fun s b => (s, snd b) |}.
