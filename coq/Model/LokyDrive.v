(* Deterministic driver for M10b, used only by the correspondence check (harness/props/c10.py):
   it turns a fault-injection scenario into an event sequence of the pool model, the same way the
   real scenario is driven (victims are chosen by task index: the task itself kills its worker).
   Executable definitions only.  Nothing here is used by the theorems. *)
From Coq Require Import ZArith List Bool Arith.
Require Import JV.Model.LokyExec.
Import ListNotations.

Inductive trap_kind :=
| TDie            (* the worker dies before writing any byte of the result: argument unpickling,
                     task start, mid-task, result pickling *)
| TMidSend        (* dies after writing part of the result message *)
| TAfterSend      (* dies after the whole result message was written *)
| TAfterSendSeen  (* same, and the manager thread handles the death before any other result arrives *)
| TDieBusy        (* dies (no byte of its result written) while the manager thread is busy handling another
                     message, i.e. not in wait() *)
| TGarbage        (* returns bytes that do not unpickle in the parent *)
| TBadArgs.       (* (at Take) the call item does not unpickle in the worker *)

Record dstate := mkD {
  dpool : pool;
  traps : list (nat * trap_kind);     (* task index within the current call -> fault *)
  killed : list nat;                  (* pids killed so far *)
  seen : list nat;                    (* processes of the executor at the time of a fault *)
  masked : bool                       (* the manager thread is not scheduled at the instants at which it would
                                         find only a sentinel (or nothing) to read: the death stays unnoticed *)
}.

Definition trap_of (d : dstate) (e : exec) (id : nat) : option trap_kind :=
  match call (dpool d) with
  | None => None
  | Some c =>
    let fix find (l : list (nat * trap_kind)) :=
      match l with
      | [] => None
      | (v, k) :: t => if Nat.eqb (nth v (ids c) (S (nfut e))) id then Some k else find t
      end in find (traps d)
  end.

Definition dex (d : dstate) (ev : event) : dstate := mkD (pstep (dpool d) (Ex ev)) (traps d) (killed d) (seen d) (masked d).
Definition dp (d : dstate) (ev : pevent) : dstate := mkD (pstep (dpool d) ev) (traps d) (killed d) (seen d) (masked d).

(* one iteration of the manager thread.  When [masked], it is not scheduled at an instant at which the
   result pipe and the wake-up pipe are both empty (the only thing it could do there is notice a death). *)
Definition mgr_turn (d : dstate) : dstate :=
  match cur (dpool d) with
  | Some e =>
    if (masked d && match resq e with [] => negb (wakeup e) | _ => false end)%bool then d
    else dex (dex d ManagerWake) Feed
  | None => d
  end.

Fixpoint iter {A} (n : nat) (f : A -> A) (a : A) : A := match n with O => a | S k => iter k f (f a) end.

(* the worker finishes (or fails to finish) the task it holds *)
Definition finish (p : nat) (d : dstate) : dstate :=
  match cur (dpool d) with
  | None => d
  | Some e =>
    match wk e p with
    | WBusy id =>
      match trap_of d e id with
      | Some TDie | Some TBadArgs => mkD (pstep (dpool d) (Ex (Die p))) (traps d) (p :: killed d) (seen d) (masked d)
      | Some TDieBusy =>
        let d1 := dex d ManagerWake in       (* the manager leaves wait() for whatever is ready ... *)
        mkD (pstep (dpool d1) (Ex (Die p))) (traps d) (p :: killed d) (seen d) (masked d)   (* ... and the worker dies meanwhile *)
      | Some TMidSend => mkD (pstep (dpool d) (Ex (DieMidSend p))) (traps d) (p :: killed d) (seen d) (masked d)
      | Some TAfterSend =>
        mkD (pstep (pstep (dpool d) (Ex (Result p (Z.of_nat id)))) (Ex (Die p))) (traps d) (p :: killed d) (seen d) (masked d)
      | Some TAfterSendSeen =>
        let d1 := mkD (pstep (pstep (dpool d) (Ex (Result p (Z.of_nat id)))) (Ex (Die p))) (traps d) (p :: killed d)
                      (seen d) false in
        let n := match cur (dpool d1) with Some e1 => length (resq e1) + 3 | None => 0 end in
        mkD (dpool (iter n mgr_turn d1)) (traps d) (p :: killed d) (seen d) (masked d)
      | Some TGarbage => dex d (ResultGarbage p)
      | None => dex d (Result p (Z.of_nat id))
      end
    | _ => d
    end
  end.

Definition cur_procs (d : dstate) : list nat :=
  match cur (dpool d) with Some e => procs e | None => [] end.

(* call_queue.get in worker p *)
Definition take (p : nat) (d : dstate) : dstate :=
  match cur (dpool d) with
  | Some e =>
    match callq e with
    | id :: _ => match trap_of d e id with
                 | Some TBadArgs => match wk e p with
                                    | WIdle => mkD (pstep (dpool d) (Ex (BadArgs p))) (traps d) (p :: killed d) (seen d) (masked d)
                                    | _ => d
                                    end
                 | _ => dex d (Take p)
                 end
    | [] => d
    end
  | None => d
  end.


(* one scheduling round: every worker takes a task and finishes it, the manager loops four times,
   the caller dispatches one more task, polls, completes an abort if one is in progress *)
Definition round (d : dstate) : dstate :=
  let d1 := dex d Feed in
  let d2 := fold_left (fun d p => take p d) (cur_procs d1) d1 in
  let d3 := fold_left (fun d p => finish p d) (cur_procs d2) d2 in
  let d4 := mgr_turn (mgr_turn (mgr_turn (mgr_turn d3))) in
  dp (dp (dp d4 Dispatch) Poll) AbortJoin.

Fixpoint rounds (n : nat) (d : dstate) : dstate :=
  match n with O => d | S k => rounds k (round d) end.

Inductive macro :=
| MWithEnter | MWithExit
| MCall (n burst : nat) (tr : list (nat * trap_kind))   (* start a call, dispatch the first [burst] tasks *)
| MRounds (n : nat)
| MDispatch (n : nat)
| MKillIdle (j : nat)                                   (* kill the j-th process of the executor from outside *)
| MRetireAll                                            (* every idle worker exits cleanly (idle time-out) *)
| MMask (b : bool)                                      (* the manager stops / resumes noticing deaths *)
| MMgr (n : nat).                                       (* let the manager thread loop n times *)

Definition dmacro (d : dstate) (m : macro) : dstate :=
  match m with
  | MWithEnter => dp d WithEnter
  | MWithExit => dp d WithExit
  | MCall n burst tr =>
    let d1 := mkD (pstep (dpool d) (CallBegin n)) tr (killed d)
                  (match tr with [] => seen d | _ => cur_procs d ++ seen d end) (masked d) in
    iter burst (fun d => dp d Dispatch) d1
  | MDispatch n => iter n (fun d => dp d Dispatch) d
  | MRounds n => rounds n d
  | MKillIdle j =>
    match nth_error (cur_procs d) j with
    | Some p => mkD (pstep (dpool d) (Ex (Die p))) (traps d) (p :: killed d) (cur_procs d ++ seen d) (masked d)
    | None => d
    end
  | MRetireAll => iter (length (cur_procs d) + 2) mgr_turn (fold_left (fun d p => dex d (Retire p)) (cur_procs d) d)
  | MMask b => mkD (dpool d) (traps d) (killed d) (seen d) b
  | MMgr n => iter n mgr_turn d
  end.

Definition drive (mw qc : nat) (ms : list macro) : dstate :=
  fold_left dmacro ms (mkD (init_pool mw qc) [] [] [] false).

(* ---- what the check prints: outcome classes (oldest call first), whether a call is still
   blocked at the end, whether the manager is stuck, and whether the processes of the final executor
   avoid every process the executor had when a fault was injected.
   class: 0 = list of n results; 1 = TerminatedWorkerError; 2 = BrokenProcessPool; 3 = ShutdownExecutorError;
          4 = task error *)
Definition oclass (o : outcome) : Z * Z :=
  match o with
  | OReturn rs => (0, Z.of_nat (length rs))
  | ORaise (PoolError TerminatedWorkerError) => (1, 0)
  | ORaise (PoolError BrokenProcessPool) => (2, 0)
  | ORaise ShutdownExecutorError => (3, 0)
  | ORaise (TaskError _) => (4, 0)
  end%Z.

Definition show (d : dstate) : list (Z * Z) * (bool * bool * bool) :=
  let s := dpool d in
  (map oclass (rev (outcomes s)),
   (match call s with Some _ => true | None => false end,
    match cur s with Some e => match mgr e with Stuck => true | _ => false end | None => false end,
    match cur s with Some e => forallb (fun p => negb (memb p (seen d ++ killed d))) (procs e) | None => true end)).
