(* Model M2b -- joblib.func_inspect.get_func_name and the function identifier Memory derives from it
   (memory._build_func_identifier = os.path.join( *modules, name )), on POSIX, Python 3.
   Strings are lists of code points.  Executable definitions only. *)
From Coq Require Import ZArith List Bool.
Import ListNotations.
Open Scope Z_scope.

Definition str := list Z.

Definition DOT : Z := 46.     (* "." *)
Definition SLASH : Z := 47.   (* "/" = os.sep *)
Definition DASH : Z := 45.    (* "-" *)

Fixpoint str_eqb (a b : str) : bool :=
  match a, b with
  | [], [] => true
  | x :: a', y :: b' => (x =? y) && str_eqb a' b'
  | _, _ => false
  end.

(* s.split(sep) for a one-character separator: never empty, "".split(".") = [""] *)
Fixpoint split_on (sep : Z) (s : str) : list str :=
  match s with
  | [] => [[]]
  | c :: t =>
      if c =? sep then [] :: split_on sep t
      else match split_on sep t with
           | h :: r => (c :: h) :: r
           | [] => [[c]]
           end
  end.

(* sep.join(parts) *)
Fixpoint join (sep : str) (parts : list str) : str :=
  match parts with
  | [] => []
  | [x] => x
  | x :: t => x ++ sep ++ join sep t
  end.

Fixpoint starts_with (pre s : str) : bool :=
  match pre, s with
  | [], _ => true
  | x :: pre', y :: s' => (x =? y) && starts_with pre' s'
  | _ :: _, [] => false
  end.
Definition ends_with (suf s : str) : bool := starts_with (rev suf) (rev s).

(* literals *)
Definition s_main : str := [95; 95; 109; 97; 105; 110; 95; 95].                       (* "__main__" *)
Definition s_unknown : str := [117; 110; 107; 110; 111; 119; 110].                    (* "unknown" *)
Definition s_ipython_input : str := [60; 105; 112; 121; 116; 104; 111; 110; 45; 105; 110; 112; 117; 116].  (* "<ipython-input" *)
Definition s_ipykernel_ : str := [105; 112; 121; 107; 101; 114; 110; 101; 108; 95].  (* "ipykernel_" *)
Definition s_ipykernel : str := [105; 112; 121; 107; 101; 114; 110; 101; 108].       (* "ipykernel" *)
Definition s_dot_py : str := [46; 112; 121].                                         (* ".py" *)

(* what get_func_name reads from the callable *)
Record callable := mkCallable {
  f_module : option str;       (* func.__module__ (the attribute exists); None = it is None *)
  f_name : option str;         (* func.__name__; None = no such attribute *)
  f_qualname : option str;     (* func.__qualname__; None = no such attribute *)
  f_sourcefile : option str;   (* os.path.abspath(inspect.getsourcefile(func)); None = that raised *)
  f_identity : Z               (* the rest of the object (code, closure cells, bound arguments): NOT consulted *)
}.

Definition replace_last {A} (l : list A) (x : A) : list A := removelast l ++ [x].

(*  parts = filename.split(os.sep)
    if parts[-1].startswith("<ipython-input"):
        split = parts[-1].split("-"); parts[-1] = "-".join(split[:2] + split[3:])
    elif len(parts) > 2 and parts[-2].startswith("ipykernel_"):
        parts[-2] = "ipykernel"
    filename = "-".join(parts)
    if filename.endswith(".py"): filename = filename[:-3]                                   *)
Definition mangle_filename (filename : str) : str :=
  let parts := split_on SLASH filename in
  let lastp := last parts [] in
  let parts' :=
    if starts_with s_ipython_input lastp then
      let sp := split_on DASH lastp in
      replace_last parts (join [DASH] (firstn 2 sp ++ skipn 3 sp))
    else if (Nat.ltb 2 (length parts)) && starts_with s_ipykernel_ (last (removelast parts) []) then
      removelast (removelast parts) ++ [s_ipykernel; lastp]
    else parts in
  let fn := join [DASH] parts' in
  if ends_with s_dot_py fn then firstn (length fn - 3) fn else fn.

(* get_func_name(func) -> (module, name); the func_globals / im_class branches exist only for Python 2
   objects and the Windows quoting only when os.name == "nt": not modelled *)
Definition get_func_name_model (f : callable) : list str * str :=
  let module0 := match f_module f with Some m => m | None => [] end in
  let module1 :=
    if str_eqb module0 s_main then
      match f_sourcefile f with
      | Some filename => module0 ++ [DASH] ++ mangle_filename filename
      | None => module0
      end
    else module0 in
  let modules := split_on DOT module1 in
  let name := match f_name f with Some n => n | None => s_unknown end in
  let modules' :=
    match f_qualname f with
    | Some q => if str_eqb q name then modules else modules ++ removelast (split_on DOT q)
    | None => modules
    end in
  (modules', name).

(* posixpath.join(a, *p) *)
Fixpoint posix_join (path : str) (p : list str) : str :=
  match p with
  | [] => path
  | b :: t =>
      posix_join (if starts_with [SLASH] b then b
                  else if (match path with [] => true | _ => false end) || ends_with [SLASH] path then path ++ b
                  else path ++ [SLASH] ++ b) t
  end.

(* memory._build_func_identifier *)
Definition func_id_model (f : callable) : str :=
  let mn := get_func_name_model f in
  match fst mn ++ [snd mn] with
  | a :: rest => posix_join a rest
  | [] => []
  end.

(* the dotted path "module.qualname" *)
Definition dotted_path (m q : str) : str := m ++ [DOT] ++ q.
