(* Flat integer encoding of the results of model M2.  Used only to compare the extracted OCaml
   driver with evaluation inside Coq (vm_compute) without printing structured terms.
   Executable definitions only. *)
From Coq Require Import ZArith List Bool.
Require Import JV.Base.PyPrelude JV.Model.FilterArgs.
Import ListNotations.
Open Scope Z_scope.

Definition enc_kvs (l : list (name * value)) : list Z :=
  len l :: flat_map (fun kv => [fst kv; snd kv]) l.
Definition enc_argval (a : argval) : list Z :=
  match a with
  | VOne v => [0; v]
  | VTuple l => 1 :: len l :: l
  | VDict d => 2 :: enc_kvs d
  end.
Definition enc_key (k : key) : list Z :=
  match k with KName n => [0; n] | KStar => [1; 0] | KStarStar => [2; 0] end.
Definition enc_adict (d : adict) : list Z :=
  len d :: flat_map (fun kv => enc_key (fst kv) ++ enc_argval (snd kv)) d.
Definition enc_result (r : result adict) : list Z :=
  match r with
  | Ok d => 0 :: enc_adict d
  | Raise ValueError => [1]
  | Raise TypeError => [2]
  | Raise _ => [3]
  end.
Definition enc_bind (b : option binding) : list Z :=
  match b with
  | None => [0]
  | Some b => 1 :: len b :: flat_map (fun nv => fst nv :: enc_argval (snd nv)) b
  end.

(* everything the driver reports about one case *)
Definition run_case (full_s : sig) (full_c : call) (s : sig) (ign : list key)
    (meth : option (name * value)) (c : call) : list Z :=
  (if wf_sigb full_s then 1 else 0) :: (if in_fragment s c then 1 else 0) ::
  enc_bind (py_bind full_s full_c)
  ++ match py_bind full_s full_c with Some b => enc_adict (canon full_s b) | None => [] end
  ++ enc_result (filter_args_model s ign meth c).
