(* M7a -- model of joblib's persistence glue (joblib/numpy_pickle.py `dump`, `load`;
   joblib/numpy_pickle_utils.py `_detect_compressor`, `_validate_fileobject_and_memmap`,
   `_write_fileobject`; joblib/compressor.py registry), written statement by statement.
   The registry, the compat marker and the lz4 availability flag come from
   Gen/C03_Constants.v, regenerated from the live code on every run.
   Executable definitions only; no proofs.

   Strings are lists of code points, byte strings lists of byte values (Z). *)
From Coq Require Import ZArith List Bool.
Require Import JV.Base.PyPrelude JV.Gen.C03_Constants.
Import ListNotations.
Open Scope Z_scope.

Definition bytes := list Z.
Definition entry := (list Z * list Z * list Z * bool)%type.
Definition e_name (e : entry) : list Z := let '(n, _, _, _) := e in n.
Definition e_prefix (e : entry) : bytes := let '(_, p, _, _) := e in p.
Definition e_ext (e : entry) : list Z := let '(_, _, x, _) := e in x.
Definition e_avail (e : entry) : bool := let '(_, _, _, a) := e in a.

Fixpoint list_eqb (a b : list Z) : bool :=
  match a, b with
  | [], [] => true
  | x :: a', y :: b' => (x =? y) && list_eqb a' b'
  | _, _ => false
  end.

(* bytes.startswith / str.startswith *)
Fixpoint starts_with (s p : list Z) {struct p} : bool :=
  match p with
  | [] => true
  | x :: p' => match s with
               | [] => false
               | y :: s' => (x =? y) && starts_with s' p'
               end
  end.

(* str.endswith *)
Definition ends_with (s p : list Z) : bool := starts_with (rev s) (rev p).

(* the literals of `dump` / `_write_fileobject`, regenerated from the source (Gen/C03_Constants.v) *)
Definition zlib_name : list Z := dump_default_method.        (* compress_method = "zlib" *)
Definition lz4_name : list Z := dump_lz4_literal.            (* compress_method == "lz4" and lz4 is None *)
Definition fallback_name : list Z := write_fallback_method.  (* _COMPRESSORS["zlib"] in _write_fileobject *)

(* ------------------------------------------------------------------ dump: the arguments *)

(* compression level as `dump` sees it: None, or an int (bool is an int: False == 0, True == 1;
   the `is not False` guard is subsumed by `False in range(10)`) *)
Inductive level := LNone | LInt (n : Z).

(* the `compress` argument *)
Inductive cform :=
| CTrue                                  (* compress is True *)
| CNone                                  (* compress=None: goes through the final `else` *)
| CInt (n : Z)                           (* an int, or False (= CInt 0) *)
| CName (s : list Z)                     (* a str *)
| CTuple2 (m : list Z) (l : level)       (* a 2-tuple (method, level) *)
| CTupleBad.                             (* a tuple whose length is not 2 *)

(* the `filename` argument: a str / pathlib.Path, an object with .write, anything else *)
Inductive target := TPath (name : list Z) | TFileObj | TInvalid.

(* what `dump` decides: plain pickle, or `_write_fileobject(filename, compress=(method, level))`
   where method may be None (no extension matched) *)
Inductive wcfg := WPlain | WComp (method : option (list Z)) (lvl : level).

Definition lookup_in (tbl : list entry) (name : list Z) : option entry :=
  find (fun e => list_eqb (e_name e) name) tbl.
Definition lookup := lookup_in registry.
Definition in_registry (name : list Z) : bool :=
  match lookup name with Some _ => true | None => false end.

(* compress_level in range(10) *)
Definition level_valid (l : level) : bool :=
  match l with LNone => true | LInt n => (0 <=? n) && (n <? dump_level_stop) end.
(* compress_level == 0   (None == 0 is False) *)
Definition level_is_zero (l : level) : bool :=
  match l with LNone => false | LInt n => n =? 0 end.

(* for name, compressor in _COMPRESSORS.items():
       if filename.endswith(compressor.extension): compress_method = name
   -- the LAST matching entry wins *)
Definition ext_method_in (tbl : list entry) (fname : list Z) : option (list Z) :=
  fold_left (fun acc e => if ends_with fname (e_ext e) then Some (e_name e) else acc) tbl None.
Definition ext_method := ext_method_in registry.

(* if compress_level != 0: _write_fileobject(...) elif ...: plain *)
Definition finish (m : option (list Z)) (l : level) : result wcfg :=
  if level_is_zero l then Ok WPlain else Ok (WComp m l).

Definition resolve (c : cform) (t : target) : result wcfg :=
  (* compress_method = "zlib"; if compress is True / tuple / str / else *)
  match (match c with
         | CTrue | CNone => Ok (zlib_name, LNone, false)
         | CInt n => Ok (zlib_name, LInt n, false)
         | CName s => Ok (s, LNone, true)          (* compress = (compress_method, None): now a tuple *)
         | CTuple2 m l => Ok (m, l, true)
         | CTupleBad => Raise ValueError
         end) with
  | Raise e => Raise e
  | Ok (method, lvl, is_tuple) =>
    (* if compress_method == "lz4" and lz4 is None *)
    if list_eqb method lz4_name && negb lz4_installed then Raise ValueError
    (* if compress_level is not None and ... not in range(10) *)
    else if negb (level_valid lvl) then Raise ValueError
    (* if compress_method not in _COMPRESSORS *)
    else if negb (in_registry method) then Raise ValueError
    else match t with
         (* if not is_filename and not is_fileobj *)
         | TInvalid => Raise ValueError
         | TFileObj => finish (Some method) lvl
         | TPath fname =>
           if is_tuple then finish (Some method) lvl
           else
             (* compress_method = None; extension loop *)
             let m := ext_method fname in
             let hit := match m with Some n => in_registry n | None => false end in
             (* if compress_method in _COMPRESSORS and compress_level == 0: compress_level = None *)
             let lvl' := if hit && level_is_zero lvl then LNone else lvl in
             finish m lvl'
         end
  end.

(* _write_fileobject: the named compressor if registered, zlib otherwise *)
Definition write_codec (m : option (list Z)) : list Z :=
  match m with
  | Some n => if in_registry n then n else fallback_name
  | None => fallback_name
  end.

(* compressor_file / decompressor_file raise ValueError (`_check_versions`) when the backing
   module is missing *)
Definition codec_available (n : list Z) : bool :=
  match lookup n with Some e => e_avail e | None => false end.

(* the compressor actually used and the level handed to its file object *)
Definition effective (w : wcfg) : option (list Z * level) :=
  match w with WPlain => None | WComp m l => Some (write_codec m, l) end.

(* ------------------------------------------------------------------ load: detection *)

Inductive kind := KCompat | KCodec (name : list Z) | KPlain.

(* _get_prefixes_max_len *)
Definition max_prefix_len_in (tbl : list entry) : nat :=
  fold_left Nat.max (map (fun e => length (e_prefix e)) tbl) (length zfile_prefix).
Definition max_prefix_len : nat := max_prefix_len_in registry.

(* the decision of _detect_compressor on the bytes it looked at *)
Definition detect_in (tbl : list entry) (first_bytes : bytes) : kind :=
  if starts_with first_bytes zfile_prefix then KCompat
  else match find (fun e => starts_with first_bytes (e_prefix e)) tbl with
       | Some e => KCodec (e_name e)
       | None => KPlain
       end.

(* `got` = number of bytes peek()/read() handed back (at least max_prefix_len when the file is
   that long: BufferedReader.peek may return more) *)
Definition detect (got : nat) (stream : bytes) : kind := detect_in registry (firstn got stream).

(* ------------------------------------------------------------------ the stream layer *)

Section Stream.
  (* the codecs are external: what the compressor file object writes for a payload, and what the
     decompressor file object yields for a byte stream *)
  Variable encode : list Z -> level -> bytes -> bytes.
  Variable decode : list Z -> bytes -> result bytes.

  (* bytes written at the target's current position *)
  Definition dump_stream (w : wcfg) (payload : bytes) : result bytes :=
    match w with
    | WPlain => Ok payload
    | WComp m l =>
      let c := write_codec m in
      if codec_available c then Ok (encode c l payload) else Raise ValueError
    end.

  (* dump as a whole *)
  Definition dump_model (c : cform) (t : target) (payload : bytes) : result bytes :=
    bind (resolve c t) (fun w => dump_stream w payload).

  (* position of the file object after _detect_compressor: peek() does not move the cursor; the
     non-peekable branch does  read(max_prefix_len); fileobj.seek(0)  -- it REWINDS to 0 whatever the
     position was (joblib's own tests rely on it: dump(obj, buf); load(buf) without rewinding) *)
  Definition pos_after_detect (peekable : bool) (pos : nat) : nat :=
    if peekable then pos else O.

  (* What the unpickler is given to read.  `content`/`pos`: the file object and its position when
     load() is called; `peekable`: hasattr(fileobj, "peek") (true for open(..., "rb"), false for
     io.BytesIO); `load_name`: the name load() was called with -- only the compat branch looks at it. *)
  Definition load_stream (load_name : list Z) (peekable : bool) (got : nat) (content : bytes) (pos : nat)
    : result bytes :=
    let k := detect got (skipn pos content) in
    let pos' := pos_after_detect peekable pos in
    match k with
    | KCompat => Raise (OtherError 1)     (* numpy_pickle_compat.load_compatibility(load_name): not modelled *)
    | KCodec c => if codec_available c then decode c (skipn pos' content) else Raise ValueError
    | KPlain => Ok (skipn pos' content)
    end.
End Stream.

(* ------------------------------------------------------------------ load(): the dispatch *)

(* what load() is given: a path (str / pathlib.Path: load opens it itself, a raw buffered file), or an object
   with .read -- a raw file (open(p, "rb"): io.BufferedReader over io.FileIO), an io.BytesIO, anything else *)
Inductive src := SPath | SRawFile | SBytesIO | SOtherObj.
(* the ensure_native_byte_order argument *)
Inductive native_arg := NAuto | NTrue | NFalse.
(* the warning _validate_fileobject_and_memmap emits when it drops mmap_mode *)
Inductive warn := WNone | WBytesIO | WCompressed | WNotRaw.
(* what the unpickler is set up with *)
Record load_plan := { lp_mmap : bool;      (* NumpyUnpickler.mmap_mode is not None *)
                      lp_native : bool;    (* NumpyUnpickler.ensure_native_byte_order *)
                      lp_warn : warn }.

(* _is_raw_file(fileobj) on the object _validate_fileobject_and_memmap holds for an UNcompressed file *)
Definition is_raw (s : src) : bool := match s with SPath | SRawFile => true | _ => false end.

(* mmap_mode validation of _validate_fileobject_and_memmap, in the order of its if / elif chain; for a
   compressed file `fileobj` has already been replaced by the BufferedReader over the decompressor, so the
   BytesIO test only fires for an uncompressed BytesIO *)
Definition validate_mmap (s : src) (mmap : bool) (k : kind) : bool * warn :=
  if mmap then
    match s, k with
    | SBytesIO, KPlain => (false, WBytesIO)
    | _, KPlain => if is_raw s then (true, WNone) else (false, WNotRaw)
    | _, _ => (false, WCompressed)
    end
  else (false, WNone).

(* load(filename, mmap_mode, ensure_native_byte_order) up to the call of _unpickle.  `mmap`: mmap_mode is not
   None; `k`: what _detect_compressor said.  In the file-object branch the validated mmap_mode is dropped
   (`as (fobj, _)`): a file object is never memory-mapped. *)
Definition load_decide (s : src) (mmap : bool) (na : native_arg) (k : kind) : result load_plan :=
  (* if ensure_native_byte_order == "auto": ensure_native_byte_order = mmap_mode is None *)
  let native := match na with NAuto => negb mmap | NTrue => true | NFalse => false end in
  (* if ensure_native_byte_order and mmap_mode is not None: raise ValueError *)
  if native && mmap then Raise ValueError
  else match k with
       | KCompat => Raise (OtherError 1)          (* numpy_pickle_compat: not modelled *)
       | _ =>
         if (match k with KCodec c => negb (codec_available c) | _ => false end) then Raise ValueError
         else let '(valid, w) := validate_mmap s mmap k in
              Ok {| lp_mmap := (match s with SPath => valid | _ => false end); lp_native := native; lp_warn := w |}
       end.

(* ------------------------------------------------------------------ how a pickle starts *)

(* What CPython's pickler can emit at the start of a stream (protocols 0..pickle_highest_protocol):
   protocol >= 2 starts with PROTO (0x80) and the protocol number; protocols 0 and 1 start with an
   opcode of protocol <= 1, and when that opcode takes no argument the next byte is again such an opcode. *)
Definition is_op01 (b : Z) : bool := existsb (fun o => fst o =? b) pickle_ops01.
Definition is_argless01 (b : Z) : bool := existsb (fun o => (fst o =? b) && snd o) pickle_ops01.
Definition pickle_start2 (b0 b1 : Z) : bool :=
  ((b0 =? 128) && (2 <=? b1) && (b1 <=? pickle_highest_protocol))
  || (is_op01 b0 && (negb (is_argless01 b0) || is_op01 b1)).
Definition pickle_startb (p : bytes) : bool :=
  match p with b0 :: b1 :: _ => pickle_start2 b0 b1 | _ => false end.

(* ------------------------------------------------------------------ decidable table conditions *)

(* every prefix of the table plus the compat marker *)
Definition all_prefixes (tbl : list entry) : list bytes := zfile_prefix :: map e_prefix tbl.

(* one of the two byte strings is a prefix of the other *)
Definition comparable (p q : bytes) : bool := starts_with p q || starts_with q p.

Definition entry_eqb (e e' : entry) : bool :=
  list_eqb (e_name e) (e_name e') && list_eqb (e_prefix e) (e_prefix e')
  && list_eqb (e_ext e) (e_ext e') && Bool.eqb (e_avail e) (e_avail e').

(* no registered prefix is a prefix of another one nor of the compat marker (and vice versa) *)
Definition table_unambiguous (tbl : list entry) : bool :=
  forallb (fun e => negb (comparable zfile_prefix (e_prefix e))
                    && forallb (fun e' => negb (comparable (e_prefix e) (e_prefix e')) || entry_eqb e e') tbl) tbl.

(* no registered extension is a suffix of another one *)
Definition ext_unambiguous (tbl : list entry) : bool :=
  forallb (fun e => forallb (fun e' => negb (comparable (rev (e_ext e)) (rev (e_ext e'))) || entry_eqb e e') tbl) tbl.

Fixpoint names_distinct (l : list (list Z)) : bool :=
  match l with
  | [] => true
  | n :: t => negb (existsb (list_eqb n) t) && names_distinct t
  end.

(* two bytes can be the head of something a prefix matches *)
Definition may_match2 (p : bytes) (b0 b1 : Z) : bool :=
  match p with
  | [] => true
  | [x] => x =? b0
  | x :: y :: _ => (x =? b0) && (y =? b1)
  end.
Definition byte_values : list Z := map Z.of_nat (seq 0 256).
Definition pickle_heads_clear (tbl : list entry) : bool :=
  forallb (fun b0 => forallb (fun b1 =>
     negb (pickle_start2 b0 b1) || forallb (fun p => negb (may_match2 p b0 b1)) (all_prefixes tbl))
     byte_values) byte_values.
