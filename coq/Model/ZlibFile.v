(* M6 -- executable model of joblib/compressor.py BinaryZlibFile / BinaryGzipFile (reader state
   machine and writer bookkeeping) and of numpy_pickle_utils._read_bytes.
   Definitions only; proofs are in Proofs/ZlibFile*.v.

   External code is data, never assumed correct joblib code:
   * the raw file, as seen through `self._fp.read(_BUFFER_SIZE)` and `zlib.decompressobj`, is a
     list of raw blocks [raw]: for a block of the compressed stream we record what the
     decompressor outputs when the block is fed to it in order ([RData o]); the block holding the
     end-of-stream marker additionally sets `eof` and leaves `unused_data = u` ([RLast o u]); blocks
     after it are junk ([RJunk b], b = their raw bytes).  A [script] is either a truncated stream
     (no marker) or a complete stream followed by an arbitrary trailer.
   * the compressor (writer) is a Section variable.

   Loops whose termination is the subject of C14 (`while` in _fill_buffer, _read_all,
   _read_block, _read_bytes) are recursion on fuel; [None] is the distinguished OutOfFuel result. *)
From Coq Require Import ZArith List Bool.
Require Import JV.Base.PyPrelude.
Import ListNotations.
Open Scope Z_scope.

Definition bytes := list Z.

(* ------------------------------------------------------------------ Python slices on bytes *)
Definition zfirstn {A} (n : Z) (l : list A) : list A := firstn (Z.to_nat n) l.
Definition zskipn {A} (n : Z) (l : list A) : list A := skipn (Z.to_nat n) l.

(* index normalisation of b[i:j] (PySlice_AdjustIndices, step 1) *)
Definition norm_idx (n i : Z) : Z := if i <? 0 then Z.max 0 (n + i) else Z.min i n.
(* b[a:e] *)
Definition py_slice {A} (l : list A) (a e : Z) : list A :=
  let n := len l in
  zfirstn (norm_idx n e - norm_idx n a) (zskipn (norm_idx n a) l).
(* b[a:] *)
Definition py_from {A} (l : list A) (a : Z) : list A := zskipn (norm_idx (len l) a) l.
(* b[:e] *)
Definition py_upto {A} (l : list A) (e : Z) : list A := zfirstn (norm_idx (len l) e) l.

(* ------------------------------------------------------------------ the file and zlib *)
(* A raw block is whatever ONE call `self._fp.read(_BUFFER_SIZE)` returned.  Nothing is assumed about its size:
   the underlying stream may legally return any non-empty prefix of what was asked (a regular file or BytesIO
   returns full 8192-byte blocks, an unbuffered socket file, a pipe or an io.RawIOBase wrapper returns short
   reads); the empty answer means end of file.  The theorems quantify over ALL block lists, so every way of
   cutting the file into reads is covered; the code must never take a short block for the end of the file.
   (The harness records the script with the real block boundaries, including those of a short-read stream.) *)
Inductive raw :=
| RData (o : bytes)              (* block inside the stream: decompress() returns o *)
| RLast (o : bytes) (u : bytes)  (* block with the end marker: returns o, eof, unused_data = u *)
| RJunk (b : bytes).             (* block after the stream; b = its raw bytes *)

Inductive script :=
| Truncated (outs : list bytes)
| Complete (outs : list bytes) (last : bytes) (unused : bytes) (extra : list bytes).

Definition file_of (s : script) : list raw :=
  match s with
  | Truncated os => map RData os
  | Complete os o u ex => map RData os ++ RLast o u :: map RJunk ex
  end.

(* every block output of the stream, in order *)
Definition all_outs (s : script) : list bytes :=
  match s with Truncated os => os | Complete os o _ _ => os ++ [o] end.
(* the uncompressed bytes the file delivers *)
Definition payload (s : script) : bytes := concat (all_outs s).

Definition raw_out (t : raw) : bytes :=
  match t with RData o => o | RLast o _ => o | RJunk _ => [] end.
Definition stream_out (l : list raw) : bytes := concat (map raw_out l).

(* `not rawblock`: blocks of a compressed stream are never empty *)
Definition raw_empty (t : raw) : bool := match t with RJunk [] => true | _ => false end.
(* raw bytes appended to unused_data when a block is fed after eof (only junk ever is) *)
Definition raw_bytes (t : raw) : bytes := match t with RJunk b => b | _ => [] end.

(* decompressobj.decompress(t) in state (eof, unused_data): output, new eof, new unused_data *)
Definition decompress (eof : bool) (un : bytes) (t : raw) : bytes * bool * bytes :=
  if eof then ([], true, un ++ raw_bytes t)
  else match t with
       | RData o => (o, false, un)
       | RLast o u => (o, true, u)
       | RJunk _ => ([], false, un)   (* never produced by file_of before the marker *)
       end.

(* ------------------------------------------------------------------ reader state *)
Inductive fmode := MClosed | MRead | MReadEOF | MWrite.
Definition mode_code (m : fmode) : Z :=
  match m with MClosed => 0 | MRead => 1 | MReadEOF => 2 | MWrite => 3 end.

Record rstate := mkR {
  mode : fmode;      (* _mode *)
  pos : Z;           (* _pos *)
  size : Z;          (* _size, -1 = unknown *)
  buf : bytes;       (* _buffer *)
  off : Z;           (* _buffer_offset *)
  fp : list raw;     (* raw blocks _fp.read has not returned yet *)
  deof : bool;       (* _decompressor.eof *)
  dunused : bytes    (* _decompressor.unused_data *)
}.

Definition UnsupportedOperation : exn := OtherError 1.   (* io.UnsupportedOperation *)

(* __init__(mode='rb') *)
Definition init_state (file : list raw) : rstate := mkR MRead 0 (-1) [] 0 file false [].

Definition is_reading (m : fmode) : bool :=
  match m with MRead | MReadEOF => true | _ => false end.

(* _check_not_closed / _check_can_read / _check_can_seek (underlying file seekable) *)
Definition check_not_closed (st : rstate) : option exn :=
  match mode st with MClosed => Some ValueError | _ => None end.
Definition check_can_read (st : rstate) : option exn :=
  if is_reading (mode st) then None
  else match check_not_closed st with Some e => Some e | None => Some UnsupportedOperation end.
Definition check_can_seek := check_can_read.
Definition check_can_write_r (st : rstate) : option exn :=
  match mode st with MWrite => None | _ =>
    match check_not_closed st with Some e => Some e | None => Some UnsupportedOperation end end.

(* except EOFError: self._mode = _MODE_READ_EOF; self._size = self._pos *)
Definition set_eof (st : rstate) : rstate :=
  mkR MReadEOF (pos st) (pos st) (buf st) (off st) (fp st) (deof st) (dunused st).
Definition with_fp (st : rstate) (r : list raw) : rstate :=
  mkR (mode st) (pos st) (size st) (buf st) (off st) r (deof st) (dunused st).

(* rawblock = self._decompressor.unused_data or self._fp.read(_BUFFER_SIZE) *)
Definition next_raw (st : rstate) : option (raw * list raw) :=
  match dunused st with
  | _ :: _ => Some (RJunk (dunused st), fp st)
  | [] => match fp st with [] => None | t :: r => Some (t, r) end
  end.

(* the `while self._buffer_offset == len(self._buffer)` loop of _fill_buffer (current code) *)
Fixpoint fill_loop (fuel : nat) (st : rstate) : option (bool * rstate) :=
  match fuel with
  | O => None
  | S f =>
    if off st =? len (buf st) then
      if deof st then Some (false, set_eof st)               (* if self._decompressor.eof: raise EOFError *)
      else match next_raw st with
           | None => Some (false, set_eof st)                (* if not rawblock: raise EOFError *)
           | Some (t, r) =>
             if raw_empty t then Some (false, set_eof (with_fp st r))
             else let '(o, e, u) := decompress (deof st) (dunused st) t in
                  fill_loop f (mkR (mode st) (pos st) (size st) o 0 r e u)
           end
    else Some (true, st)
  end.

Definition fill_buffer (fuel : nat) (st : rstate) : option (bool * rstate) :=
  match mode st with MReadEOF => Some (false, st) | _ => fill_loop fuel st end.

(* the loop as it was before commit "fix: BinaryZlibFile._fill_buffer stops at the
   end-of-stream marker" (F7): no eof test *)
Fixpoint fill_loop_old (fuel : nat) (st : rstate) : option (bool * rstate) :=
  match fuel with
  | O => None
  | S f =>
    if off st =? len (buf st) then
      match next_raw st with
      | None => Some (false, set_eof st)
      | Some (t, r) =>
        if raw_empty t then Some (false, set_eof (with_fp st r))
        else let '(o, e, u) := decompress (deof st) (dunused st) t in
             fill_loop_old f (mkR (mode st) (pos st) (size st) o 0 r e u)
      end
    else Some (true, st)
  end.
Definition fill_buffer_old (fuel : nat) (st : rstate) : option (bool * rstate) :=
  match mode st with MReadEOF => Some (false, st) | _ => fill_loop_old fuel st end.

Section Reader.
(* which _fill_buffer the read loops call (current or pre-fix) *)
Variable fillb : nat -> rstate -> option (bool * rstate).

(* self._buffer = self._buffer[self._buffer_offset:]; self._buffer_offset = 0 *)
Definition compact (st : rstate) : rstate :=
  mkR (mode st) (pos st) (size st) (py_from (buf st) (off st)) 0 (fp st) (deof st) (dunused st).

(* while self._fill_buffer(): blocks.append(buffer); _pos += len(buffer); buffer = b"" *)
Fixpoint ra_loop (F fuel : nat) (ret : bool) (acc : list bytes) (st : rstate)
  : option (list bytes * rstate) :=
  match fuel with
  | O => None
  | S f =>
    match fillb F st with
    | None => None
    | Some (false, st1) => Some (acc, st1)
    | Some (true, st1) =>
      ra_loop F f ret (if ret then acc ++ [buf st1] else acc)
              (mkR (mode st1) (pos st1 + len (buf st1)) (size st1) [] (off st1) (fp st1) (deof st1)
                   (dunused st1))
    end
  end.

(* _read_all(return_data); the None of return_data=False is rendered as [] *)
Definition read_all (fuel : nat) (ret : bool) (st : rstate) : option (bytes * rstate) :=
  match ra_loop fuel fuel ret [] (compact st) with
  | None => None
  | Some (bl, st1) => Some (if ret then concat bl else [], st1)
  end.

(* while n_bytes > 0 and self._fill_buffer(): ... *)
Fixpoint rb_loop (F fuel : nat) (ret : bool) (n : Z) (acc : list bytes) (st : rstate)
  : option (list bytes * rstate) :=
  match fuel with
  | O => None
  | S f =>
    if 0 <? n then
      match fillb F st with
      | None => None
      | Some (false, st1) => Some (acc, st1)
      | Some (true, st1) =>
        let data := if n <? len (buf st1) then py_upto (buf st1) n else buf st1 in
        let st2 := if n <? len (buf st1)
                   then mkR (mode st1) (pos st1) (size st1) (buf st1) n (fp st1) (deof st1) (dunused st1)
                   else mkR (mode st1) (pos st1) (size st1) [] (off st1) (fp st1) (deof st1) (dunused st1) in
        rb_loop F f ret (n - len data) (if ret then acc ++ [data] else acc)
                (mkR (mode st2) (pos st2 + len data) (size st2) (buf st2) (off st2) (fp st2) (deof st2)
                     (dunused st2))
      end
    else Some (acc, st)
  end.

(* _read_block(n_bytes, return_data) *)
Definition read_block (fuel : nat) (ret : bool) (n : Z) (st : rstate) : option (bytes * rstate) :=
  let e := off st + n in
  if e <=? len (buf st) then
    let data := py_slice (buf st) (off st) e in
    Some (if ret then data else [],
          mkR (mode st) (pos st + len data) (size st) (buf st) e (fp st) (deof st) (dunused st))
  else
    match rb_loop fuel fuel ret n [] (compact st) with
    | None => None
    | Some (bl, st1) => Some (if ret then concat bl else [], st1)
    end.

(* _rewind: seek(0) on the file, fresh decompressor *)
Definition rewind (file : list raw) (st : rstate) : rstate :=
  mkR MRead 0 (size st) [] 0 file false [].

(* results of the public methods *)
Inductive res :=
| VBytes (b : bytes)          (* read *)
| VInto (b : bytes)           (* readinto: b[:k] = data, returns k = len data *)
| VInt (z : Z)                (* seek / tell / write *)
| VNone                       (* close / flush *)
| VBool (b : bool)            (* closed / readable() / writable() / seekable() *)
| VExc (e : exn).

Inductive query := QClosed | QReadable | QWritable | QSeekable.

(* read(size) *)
Definition do_read (fuel : nat) (n : Z) (st : rstate) : option (res * rstate) :=
  match check_can_read st with
  | Some e => Some (VExc e, st)
  | None =>
    if n =? 0 then Some (VBytes [], st)
    else match (if n <? 0 then read_all fuel true st else read_block fuel true n st) with
         | None => None
         | Some (d, st1) => Some (VBytes d, st1)
         end
  end.

(* readinto(b) = io.BufferedIOBase.readinto: data = self.read(len(b)); b[:len(data)] = data *)
Definition do_readinto (fuel : nat) (n : Z) (st : rstate) : option (res * rstate) :=
  match do_read fuel n st with
  | None => None
  | Some (VBytes d, st1) => Some (VInto d, st1)
  | Some (r, st1) => Some (r, st1)
  end.

(* seek(offset, whence) *)
Definition do_seek (fuel : nat) (file : list raw) (o w : Z) (st : rstate) : option (res * rstate) :=
  match check_can_seek st with
  | Some e => Some (VExc e, st)
  | None =>
    let abs : option (option (Z * rstate)) :=    (* None = out of fuel; Some None = bad whence *)
      if w =? 0 then Some (Some (o, st))
      else if w =? 1 then Some (Some (pos st + o, st))
      else if w =? 2 then
        if size st <? 0 then
          match read_all fuel false st with
          | None => None
          | Some (_, st1) => Some (Some (size st1 + o, st1))
          end
        else Some (Some (size st + o, st))
      else Some None in
    match abs with
    | None => None
    | Some None => Some (VExc ValueError, st)
    | Some (Some (target, st1)) =>
      let '(skip, st2) := if target <? pos st1 then (target, rewind file st1)
                          else (target - pos st1, st1) in
      match read_block fuel false skip st2 with
      | None => None
      | Some (_, st3) => Some (VInt (pos st3), st3)
      end
    end
  end.

Definition do_tell (st : rstate) : res * rstate :=
  match check_not_closed st with Some e => (VExc e, st) | None => (VInt (pos st), st) end.

(* close() of a reader: idempotent; buffer dropped *)
Definition do_close (st : rstate) : res * rstate :=
  match mode st with
  | MClosed => (VNone, st)
  | _ => (VNone, mkR MClosed (pos st) (size st) [] 0 (fp st) (deof st) (dunused st))
  end.

(* write() on a file opened for reading *)
Definition do_write_r (st : rstate) : res * rstate :=
  match check_can_write_r st with Some e => (VExc e, st) | None => (VNone, st) end.

(* the `closed` property, readable(), writable(), seekable() (underlying file seekable) *)
Definition do_query (q : query) (st : rstate) : res * rstate :=
  match q with
  | QClosed => (VBool (match mode st with MClosed => true | _ => false end), st)
  | QReadable =>
    match check_not_closed st with Some e => (VExc e, st) | None => (VBool (is_reading (mode st)), st) end
  | QWritable =>
    match check_not_closed st with
    | Some e => (VExc e, st)
    | None => (VBool (match mode st with MWrite => true | _ => false end), st)
    end
  | QSeekable =>   (* return self.readable() and self._fp.seekable() *)
    match check_not_closed st with Some e => (VExc e, st) | None => (VBool (is_reading (mode st)), st) end
  end.

(* flush() is io.IOBase.flush (C): it tests the private __IOBase_closed flag, which BinaryZlibFile.close()
   never sets (it does not call IOBase.close), so flush() returns None even on a closed file *)
Definition do_flush (st : rstate) : res * rstate := (VNone, st).

Inductive op :=
| ORead (n : Z) | OReadinto (n : Z) | OSeek (o w : Z) | OTell | OClose | OWrite
| OQuery (q : query) | OFlush
| OReadintoRO.   (* readinto(b) with b not writable: TypeError from the argument conversion of the C method
                    io.BufferedIOBase.readinto, before anything is read -- also on a closed file *)

Definition step (fuel : nat) (file : list raw) (o : op) (st : rstate) : option (res * rstate) :=
  match o with
  | ORead n => do_read fuel n st
  | OReadinto n => do_readinto fuel n st
  | OSeek k w => do_seek fuel file k w st
  | OTell => Some (do_tell st)
  | OClose => Some (do_close st)
  | OWrite => Some (do_write_r st)
  | OQuery q => Some (do_query q st)
  | OFlush => Some (do_flush st)
  | OReadintoRO => Some (VExc TypeError, st)
  end.

(* run a history; None as soon as one operation runs out of fuel *)
Fixpoint run (fuel : nat) (file : list raw) (ops : list op) (st : rstate)
  : option (list res * rstate) :=
  match ops with
  | [] => Some ([], st)
  | o :: tl =>
    match step fuel file o st with
    | None => None
    | Some (r, st1) =>
      match run fuel file tl st1 with
      | None => None
      | Some (rs, st2) => Some (r :: rs, st2)
      end
    end
  end.

(* same, keeping every intermediate state (used by the correspondence harness) *)
Fixpoint trace (fuel : nat) (file : list raw) (ops : list op) (st : rstate)
  : list (option (res * rstate)) :=
  match ops with
  | [] => []
  | o :: tl =>
    match step fuel file o st with
    | None => [None]
    | Some (r, st1) => Some (r, st1) :: trace fuel file tl st1
    end
  end.
End Reader.

(* the reader as the code is now, and as it was before the F7 fix *)
Definition run_new := run fill_buffer.
Definition run_old := run fill_buffer_old.
Definition fuel_for (file : list raw) : nat := length file + 3.

(* ------------------------------------------------------------------ reference stream *)
(* io.BytesIO over the payload, seeks clamped to the end; closed flag.
   None = the operation is outside the property (seek target before the start). *)
Record refst := mkRef { rpos : Z; rclosed : bool }.

Definition ref_step (D : bytes) (o : op) (s : refst) : option (res * refst) :=
  if rclosed s then
    match o with
    | OClose => Some (VNone, s)
    | OQuery QClosed => Some (VBool true, s)
    | OFlush => None      (* io.BytesIO raises ValueError, BinaryZlibFile returns None: outside the property *)
    | OReadintoRO => Some (VExc TypeError, s)
    | _ => Some (VExc ValueError, s)
    end
  else
  match o with
  | ORead n =>
    if n =? 0 then Some (VBytes [], s)
    else if n <? 0 then Some (VBytes (zskipn (rpos s) D), mkRef (len D) false)
    else let d := zfirstn n (zskipn (rpos s) D) in Some (VBytes d, mkRef (rpos s + len d) false)
  | OReadinto n =>
    if n =? 0 then Some (VInto [], s)
    else if n <? 0 then Some (VInto (zskipn (rpos s) D), mkRef (len D) false)
    else let d := zfirstn n (zskipn (rpos s) D) in Some (VInto d, mkRef (rpos s + len d) false)
  | OSeek k w =>
    if (w =? 0) || (w =? 1) || (w =? 2) then
      let target := if w =? 0 then k else if w =? 1 then rpos s + k else len D + k in
      if target <? 0 then None
      else let p := Z.min target (len D) in Some (VInt p, mkRef p false)
    else Some (VExc ValueError, s)
  | OTell => Some (VInt (rpos s), s)
  | OClose => Some (VNone, mkRef (rpos s) true)
  | OWrite => Some (VExc UnsupportedOperation, s)
  | OQuery QClosed => Some (VBool false, s)
  | OQuery QReadable => Some (VBool true, s)
  | OQuery QWritable => Some (VBool false, s)
  | OQuery QSeekable => Some (VBool true, s)
  | OFlush => Some (VNone, s)
  | OReadintoRO => Some (VExc TypeError, s)
  end.

Fixpoint ref_run (D : bytes) (ops : list op) (s : refst) : option (list res * refst) :=
  match ops with
  | [] => Some ([], s)
  | o :: tl =>
    match ref_step D o s with
    | None => None
    | Some (r, s1) =>
      match ref_run D tl s1 with
      | None => None
      | Some (rs, s2) => Some (r :: rs, s2)
      end
    end
  end.

Definition ref_init : refst := mkRef 0 false.

(* ------------------------------------------------------------------ readline *)
(* BinaryZlibFile has no readline/peek of its own: readline(limit) is io.IOBase.readline (C), which without
   peek() does   while limit < 0 or len(buffer) < limit: b = self.read(1); if not b: break;
                 buffer += b; if buffer[-1] == 10: break
   The loop is bounded by the line length, not by the number of raw blocks: own fuel K. *)
Definition is_nl (x : Z) : bool := x =? 10.

Fixpoint readline_loop (K F : nat) (limit : Z) (acc : bytes) (st : rstate) : option (res * rstate) :=
  match K with
  | O => None
  | S k =>
    if (0 <=? limit) && (limit <=? len acc) then Some (VBytes acc, st)
    else match do_read fill_buffer F 1 st with
         | None => None
         | Some (VBytes b, st1) =>
           match b with
           | [] => Some (VBytes acc, st1)
           | _ => if is_nl (last b 0) then Some (VBytes (acc ++ b), st1)
                  else readline_loop k F limit (acc ++ b) st1
           end
         | Some (r, st1) => Some (r, st1)        (* the exception of read() propagates *)
         end
  end.
Definition do_readline (K F : nat) (limit : Z) (st : rstate) : option (res * rstate) :=
  readline_loop K F limit [] st.

(* reference: io.BytesIO.readline on the rest R of the stream *)
Fixpoint take_line (l : bytes) : bytes :=
  match l with
  | [] => []
  | x :: t => if is_nl x then [x] else x :: take_line t
  end.
Definition ref_readline (R : bytes) (limit : Z) : bytes :=
  if limit <? 0 then take_line R else zfirstn limit (take_line R).

(* ------------------------------------------------------------------ truncation *)
Fixpoint is_prefix (p l : bytes) : bool :=
  match p, l with
  | [], _ => true
  | x :: p', y :: l' => (x =? y) && is_prefix p' l'
  | _ :: _, [] => false
  end.

(* the scripts of the files obtained by cutting the file of S before its end marker is complete:
   the first k raw blocks whole, and possibly a cut block whose output is a prefix of block k's *)
Inductive truncation_of (S : script) : script -> Prop :=
| trunc_boundary (k : nat) : truncation_of S (Truncated (firstn k (all_outs S)))
| trunc_inside (k : nat) (p : bytes) :
    is_prefix p (nth k (all_outs S) []) = true ->
    truncation_of S (Truncated (firstn k (all_outs S) ++ [p])).

(* ------------------------------------------------------------------ writer *)
Section Writer.
Variable C : Type.                               (* zlib.compressobj state *)
Variable compress : C -> bytes -> C * bytes.     (* .compress(data) *)
Variable flush : C -> bytes.                     (* .flush() *)

Record wstate := mkW { wmode : fmode; wpos : Z; wc : C; wfile : bytes (* bytes given to _fp.write *) }.

Definition winit (c0 : C) : wstate := mkW MWrite 0 c0 [].

Definition w_check_not_closed (st : wstate) : option exn :=
  match wmode st with MClosed => Some ValueError | _ => None end.
Definition w_check_can_write (st : wstate) : option exn :=
  match wmode st with MWrite => None | _ =>
    match w_check_not_closed st with Some e => Some e | None => Some UnsupportedOperation end end.
Definition w_check_can_read (st : wstate) : option exn :=
  if is_reading (wmode st) then None
  else match w_check_not_closed st with Some e => Some e | None => Some UnsupportedOperation end.

Inductive wop := WWrite (d : bytes) | WTell | WClose | WRead | WSeek | WQuery (q : query) | WFlush.

Definition wstep (o : wop) (st : wstate) : res * wstate :=
  match o with
  | WWrite d =>
    match w_check_can_write st with
    | Some e => (VExc e, st)
    | None => let '(c', out) := compress (wc st) d in
              (VInt (len d), mkW (wmode st) (wpos st + len d) c' (wfile st ++ out))
    end
  | WTell => match w_check_not_closed st with Some e => (VExc e, st) | None => (VInt (wpos st), st) end
  | WClose =>
    match wmode st with
    | MClosed => (VNone, st)
    | MWrite => (VNone, mkW MClosed (wpos st) (wc st) (wfile st ++ flush (wc st)))
    | _ => (VNone, mkW MClosed (wpos st) (wc st) (wfile st))
    end
  | WRead => match w_check_can_read st with Some e => (VExc e, st) | None => (VNone, st) end
  | WSeek => match w_check_can_read st with Some e => (VExc e, st) | None => (VNone, st) end
  | WQuery QClosed => (VBool (match wmode st with MClosed => true | _ => false end), st)
  | WQuery QWritable =>
    match w_check_not_closed st with
    | Some e => (VExc e, st)
    | None => (VBool (match wmode st with MWrite => true | _ => false end), st)
    end
  | WQuery _ =>     (* readable(); seekable() = readable() and ... *)
    match w_check_not_closed st with Some e => (VExc e, st) | None => (VBool (is_reading (wmode st)), st) end
  | WFlush => (VNone, st)   (* IOBase.flush: nothing is flushed, never raises (see do_flush) *)
  end.

Fixpoint wrun (ops : list wop) (st : wstate) : list res * wstate :=
  match ops with
  | [] => ([], st)
  | o :: tl => let '(r, st1) := wstep o st in let '(rs, st2) := wrun tl st1 in (r :: rs, st2)
  end.

(* what the compressobj API alone produces for a chunk sequence: c.compress(d1) + ... + c.flush() *)
Fixpoint deflate_chunks (c : C) (chunks : list bytes) : bytes :=
  match chunks with
  | [] => flush c
  | d :: tl => let '(c', out) := compress c d in out ++ deflate_chunks c' tl
  end.
End Writer.

(* ------------------------------------------------------------------ _read_bytes *)
Section ReadBytes.
Variable F : Type.                          (* the file-like object *)
Variable fread : F -> Z -> F * bytes.       (* fp.read(n) (regular file: no BlockingIOError) *)

(* while True: r = fp.read(size - len(data)); data += r; if len(r) == 0 or len(data) == size: break *)
Fixpoint read_bytes_loop (fuel : nat) (sz : Z) (data : bytes) (f : F) : option (bytes * F) :=
  match fuel with
  | O => None
  | S k =>
    let '(f', r) := fread f (sz - len data) in
    let data' := data ++ r in
    if (len r =? 0) || (len data' =? sz) then Some (data', f')
    else read_bytes_loop k sz data' f'
  end.

Definition read_bytes (fuel : nat) (sz : Z) (f : F) : option (result bytes * F) :=
  match read_bytes_loop fuel sz [] f with
  | None => None
  | Some (d, f') => Some (if len d =? sz then Ok d else Raise ValueError, f')
  end.
End ReadBytes.

(* BinaryZlibFile.read as the fp.read of _read_bytes (an exception or out-of-fuel read is rendered as b'':
   neither happens on an open reader with enough fuel -- C13) *)
Definition zread (F : nat) (st : rstate) (n : Z) : rstate * bytes :=
  match do_read fill_buffer F n st with
  | Some (VBytes d, st') => (st', d)
  | _ => (st, [])
  end.

(* a file object that returns short reads: remaining data + the cap of each successive read
   (caps exhausted: reads are served in full) *)
Definition short_read (f : bytes * list Z) (n : Z) : (bytes * list Z) * bytes :=
  let '(d, caps) := f in
  let want := if n <? 0 then len d else n in
  match caps with
  | [] => ((zskipn want d, []), zfirstn want d)
  | c :: cs => let k := Z.min want (Z.max 0 c) in ((zskipn k d, cs), zfirstn k d)
  end.

(* ------------------------------------------------------------------ helpers for the harness *)
Fixpoint zrange_nat (start : Z) (n : nat) : bytes :=
  match n with O => [] | S k => start :: zrange_nat (start + 1) k end.
Definition zrange (start n : Z) : bytes := zrange_nat start (Z.to_nat n).

(* consecutive index ranges of the given lengths: the payload is [0; 1; 2; ...] *)
Fixpoint mk_outs (start : Z) (lens : list Z) : list bytes :=
  match lens with
  | [] => []
  | n :: tl => zrange start n :: mk_outs (start + n) tl
  end.
Definition zeros (n : Z) : bytes := repeat 0 (Z.to_nat n).

Fixpoint list_eqb (a b : bytes) : bool :=
  match a, b with
  | [], [] => true
  | x :: a', y :: b' => (x =? y) && list_eqb a' b'
  | _, _ => false
  end.

(* (start, length) of a chunk that is a contiguous index range; start = -1 if it is not *)
Definition summ (b : bytes) : Z * Z :=
  match b with
  | [] => (0, 0)
  | x :: _ => if list_eqb b (zrange x (len b)) then (x, len b) else (-1, len b)
  end.

Definition exn_code (e : exn) : Z :=
  match e with ValueError => 1 | TypeError => 2 | OtherError c => 100 + c | _ => 99 end.

Definition show_res (r : res) : Z * Z * Z :=
  match r with
  | VBytes b => let '(s, n) := summ b in (0, s, n)
  | VInto b => let '(s, n) := summ b in (4, s, n)
  | VInt z => (1, z, 0)
  | VNone => (2, 0, 0)
  | VBool b => (5, if b then 1 else 0, 0)
  | VExc e => (3, exn_code e, 0)
  end.
Definition show_state (st : rstate) : Z * Z * Z * Z * Z :=
  (pos st, off st, len (buf st), mode_code (mode st), size st).
Definition show_trace (t : list (option (res * rstate))) :=
  map (fun x => match x with
                | None => ((9, 0, 0), (0, 0, 0, 0, 0))
                | Some (r, st) => (show_res r, show_state st) end) t.
