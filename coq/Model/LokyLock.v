(* M10c -- the interleaving layer of M10b: ProcessPoolExecutor.submit is NOT one atomic step, and
   neither is terminate_broken.  This file splits them at the points where the other thread can run and
   makes the two synchronisation devices explicit:

     shutdown_lock   submit holds it from the broken/shutdown check to its return; flag_as_broken (first
                     statement of terminate_broken), flag_as_shutting_down and shutdown() take it too.
     wake-up pipe    submit writes to it after registering the work item and -- since fix F38 -- once more
                     after _adjust_process_count spawned workers; the manager builds the list of sentinels
                     it waits on ([watch]) when it ENTERS wait_result_broken_or_wakeup.

   Code (joblib/externals/loky/process_executor.py):
     submit                        FCheck ; FRegister ; FSpawnStart
       with shutdown_lock:            lock taken by FCheck, released by FSpawnStart (or by a raising FCheck)
         broken / shutdown checks     FCheck
         _WorkItem, pending, ids,     FRegister   (+ the first wakeup())
         _ensure_executor_running     FSpawnStart (_adjust_process_count, [rewake] second wakeup(),
                                                   _start_executor_manager_thread)
     _ExecutorManagerThread.run
       add_call_item_to_queue ; enter wait: build the sentinel list     FFeed
       wait returns; not broken: process_result_item / wake-up ...      FWake  (after_wait of M10b)
       wait returns; broken:  terminate_broken(bpe)                     FWake (decision) ; FFlag ; FFailAll
         flag_as_broken  (needs shutdown_lock)                            FFlag
         fail + clear pending, kill_workers, join_executor_internals      FFailAll
     shutdown(kill_workers)  (flag_as_shutting_down under the lock + wakeup)   FShutdown
     workers / faults                                                    FWorker ev  (step of M10b)

   The two booleans of [cfg] switch the devices off, to state what each of them is needed for:
     locked = false : flag_as_broken does not take the lock              (seeded defect C10-4)
     rewake = false : no second wakeup() after spawning                  (the code before fix F38)
   Executable definitions only. *)
From Coq Require Import ZArith List Bool Arith.
Require Import JV.Model.LokyExec.
Import ListNotations.

Record cfg := mkCfg { locked : bool; rewake : bool }.

(* where the thread calling submit() is; anything but CIdle holds shutdown_lock *)
Inductive cpc := CIdle | CChecked | CRegistered.
(* extra program counter of the manager thread inside terminate_broken *)
Inductive mextra := MNormal | MBreak1 (b : bpe) | MBreak2 (b : bpe).

Record fstate := mkF {
  ex : exec;
  caller : cpc;
  mx : mextra;
  watch : list nat          (* sentinels of the wait() the manager is (or was last) blocked in *)
}.

Definition finit (mw qc p0 : nat) : fstate := mkF (new_exec mw qc p0) CIdle MNormal [].

Inductive fevent :=
| FCheck | FRegister | FSpawnStart
| FFeed | FWake | FFlag | FFailAll
| FShutdown (k : bool)
| FWorker (ev : event).

Definition is_worker_event (ev : event) : bool :=
  match ev with
  | Take _ | Result _ _ | ResultExc _ _ | ResultGarbage _ | BadArgs _ | Retire _ | Die _ | DieMidSend _ => true
  | _ => false
  end.

(* registration half of submit: _WorkItem, _pending_work_items, _work_ids, _queue_count, first wakeup() *)
Definition register (e : exec) : exec :=
  let id := nfut e in
  mkExec (broken e) (shutdown e) (killw e) (maxw e) (qcap e) (procs e) (wk e) (pidc e)
         (upd (futs e) id FPending) (S id) (pending e ++ [id]) (work_ids e ++ [id])
         (running e) (callq e) (resq e) true (mgr e) (faulted e).

(* _ensure_executor_running, with the second wakeup() of fix F38 when [rw] *)
Definition spawn_start (rw : bool) (e : exec) : exec :=
  let e1 := if Nat.eqb (length (procs e)) (maxw e) then e
            else let e2 := adjust_process_count e in if rw then set_wakeup e2 true else e2 in
  match mgr e1 with NotStarted => set_mgr e1 AtFeed | _ => e1 end.

Definition dead_in (l : list nat) (e : exec) : bool :=
  existsb (fun p => match wk e p with WDead => true | _ => false end) l.

(* wait_result_broken_or_wakeup returned: what run() does next.  [w] = the sentinels waited on. *)
Definition fwake (st : fstate) : fstate :=
  let e := ex st in
  match mx st, mgr e with
  | MNormal, AtWait =>
    match resq e with
    | m :: rest =>
      let e0 := set_wakeup (set_resq e rest) false in
      match m with
      | MPartial => mkF (set_mgr e Stuck) (caller st) MNormal (watch st)
      | MRemoteTb => mkF e0 (caller st) (MBreak1 BrokenProcessPool) (watch st)
      | MGarbage => mkF e0 (caller st) (MBreak1 BrokenProcessPool) (watch st)
      | _ => mkF (after_wait (Some m) e0) (caller st) MNormal (watch st)
      end
    | [] =>
      if wakeup e then mkF (after_wait None (set_wakeup e false)) (caller st) MNormal (watch st)
      else if dead_in (watch st) e then mkF e (caller st) (MBreak1 TerminatedWorkerError) (watch st)
      else st                                           (* still blocked in wait() *)
    end
  | _, _ => st
  end.

Definition lock_free (st : fstate) : bool := match caller st with CIdle => true | _ => false end.

Definition fstep (c : cfg) (st : fstate) (ev : fevent) : fstate :=
  let e := ex st in
  match ev with
  | FCheck =>
    match caller st with
    | CIdle =>
      match broken e with
      | Some _ => st                                            (* raise self._flags.broken *)
      | None => if shutdown e then st                           (* raise ShutdownExecutorError *)
                else mkF e CChecked (mx st) (watch st)
      end
    | _ => st
    end
  | FRegister =>
    match caller st with
    | CChecked => mkF (register e) CRegistered (mx st) (watch st)
    | _ => st
    end
  | FSpawnStart =>
    match caller st with
    | CRegistered => mkF (spawn_start (rewake c) e) CIdle (mx st) (watch st)
    | _ => st
    end
  | FFeed =>
    match mx st, mgr e with
    | MNormal, AtFeed =>
      let e1 := manager_feed e in
      mkF e1 (caller st) MNormal (procs e1)                     (* entering wait(): the sentinel list is built *)
    | _, _ => st
    end
  | FWake => fwake st
  | FFlag =>
    match mx st with
    | MBreak1 b =>
      if (negb (locked c) || lock_free st)%bool                 (* flag_as_broken: with self.shutdown_lock *)
      then mkF (set_flags e (Some b) true (killw e)) (caller st) (MBreak2 b) (watch st)
      else st
    | _ => st
    end
  | FFailAll =>
    match mx st with
    | MBreak2 b => mkF (terminate_broken b e) (caller st) MNormal (watch st)   (* re-writing the flags is a no-op *)
    | _ => st
    end
  | FShutdown k =>
    if lock_free st then mkF (shutdown_flag k e) (caller st) (mx st) (watch st) else st
  | FWorker ev =>
    if is_worker_event ev then mkF (step e ev) (caller st) (mx st) (watch st) else st
  end.

Definition frun (c : cfg) (st : fstate) (evs : list fevent) : fstate := fold_left (fstep c) evs st.

Definition the_code : cfg := mkCfg true true.            (* /repo after fix F38 *)
Definition before_F38 : cfg := mkCfg true false.
Definition unlocked_flag : cfg := mkCfg false true.      (* seeded defect C10-4 *)

(* ------------------------------------------------------------------------------------------------
   Two locks.  Parallel.dispatch_one_batch holds Parallel._lock (P) while it pulls tasks from the input and calls
   submit(), which takes shutdown_lock (S): the caller's order is P then S.  The done-callbacks of the futures
   (BatchCompletionCallBack.__call__) take P.  They run in the manager thread: in process_result_item and in the
   fail-all loop of terminate_broken.  The manager takes S only inside flag_as_broken / flag_as_shutting_down and
   releases it before it runs any callback: it never holds S while it wants P, so there is no cycle.
   [cbl] = true is seeded defect C10-14: the fail-all loop runs while holding S (taken at FFlag, released after
   FFailAll).  [d] says the caller is inside dispatch_one_batch (holds P). *)
Inductive gevent := GDispatchBegin | GDispatchEnd | GF (ev : fevent).

Definition mgr_holds_S (cbl : bool) (st : fstate) : bool :=
  (cbl && match mx st with MBreak2 _ => true | _ => false end)%bool.

Definition gstep (cbl : bool) (c : cfg) (g : fstate * bool) (ev : gevent) : fstate * bool :=
  let '(st, d) := g in
  match ev with
  | GDispatchBegin => match caller st with CIdle => (st, true) | _ => g end
  | GDispatchEnd => match caller st with CIdle => (st, false) | _ => g end
  | GF FCheck => if mgr_holds_S cbl st then g else (fstep c st FCheck, d)       (* submit: with shutdown_lock *)
  | GF (FShutdown k) => if mgr_holds_S cbl st then g else (fstep c st (FShutdown k), d)
  | GF FFailAll => if d then g else (fstep c st FFailAll, d)                    (* set_exception -> callbacks take P *)
  | GF ev => (fstep c st ev, d)
  end.

Definition grun (cbl : bool) (c : cfg) (g : fstate * bool) (evs : list gevent) : fstate * bool :=
  fold_left (gstep cbl c) evs g.

(* both threads blocked on each other *)
Definition deadlocked (cbl : bool) (g : fstate * bool) : bool :=
  (snd g && mgr_holds_S cbl (fst g) && match caller (fst g) with CIdle => true | _ => false end)%bool.
