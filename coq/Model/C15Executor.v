(* M8b -- the reusable loky executor as joblib uses it: joblib/executor.py (get_memmapping_executor: reuse decision on the
   executor arguments) and joblib/externals/loky/reusable_executor.py (_ReusablePoolExecutor.get_reusable_executor, _resize),
   plus the events that change the number of live workers (first submit spawns up to max_workers, idle workers time
   out, the executor breaks or is shut down).  Executable definitions only. *)
From Coq Require Import ZArith List Bool.
Require Import JV.Base.PyPrelude.
Import ListNotations.
Open Scope Z_scope.

Record executor := {
  x_id      : Z;      (* identity of the executor object *)
  x_max     : Z;      (* _max_workers *)
  x_alive   : Z;      (* worker processes alive *)
  x_started : bool;   (* _executor_manager_thread is not None: workers have been spawned at least once *)
  x_broken  : bool;   (* _flags.broken *)
  x_shutdown: bool    (* _flags.shutdown *)
}.

Record estate := {
  s_exec : option executor;     (* module global _executor *)
  s_args : option Z;            (* joblib.executor._executor_args (code of the dict: timeout, env, initializer, ...) *)
  s_next : Z                    (* next executor id *)
}.

Definition init_state : estate := {| s_exec := None; s_args := None; s_next := 0 |}.

(* _resize: the test under which nothing is done *)
Definition resize_noop_model (max_workers cur : Z) : bool := max_workers =? cur.

(* _ReusablePoolExecutor._resize(max_workers) on a live executor; the resize waits for running jobs, kills the workers in
   excess and respawns up to max_workers *)
Definition resize (n : Z) (e : executor) : executor :=
  if resize_noop_model n (x_max e) then e
  else if negb (x_started e)
  then {| x_id := x_id e; x_max := n; x_alive := x_alive e; x_started := false; x_broken := x_broken e; x_shutdown := x_shutdown e |}
  else {| x_id := x_id e; x_max := n; x_alive := n; x_started := true; x_broken := x_broken e; x_shutdown := x_shutdown e |}.

Definition fresh (id n : Z) : executor :=
  {| x_id := id; x_max := n; x_alive := 0; x_started := false; x_broken := false; x_shutdown := false |}.

(* get_reusable_executor: a new executor is needed *)
Definition needs_new_model (broken shutdown reuse : bool) : bool := broken || shutdown || negb reuse.

(* get_memmapping_executor(n_jobs=n, <arguments coded by args>) -> (state, executor, is_reused) *)
Definition get_executor (n args : Z) (s : estate) : result (estate * executor * bool) :=
  let reuse := match s_args s with None => true | Some a => a =? args end in
  if n <=? 0 then Raise ValueError
  else match s_exec s with
       | None =>
           let e := fresh (s_next s) n in
           Ok ({| s_exec := Some e; s_args := Some args; s_next := s_next s + 1 |}, e, false)
       | Some e0 =>
           if needs_new_model (x_broken e0) (x_shutdown e0) reuse
           then let e := fresh (s_next s) n in
                Ok ({| s_exec := Some e; s_args := Some args; s_next := s_next s + 1 |}, e, false)
           else let e := resize n e0 in
                Ok ({| s_exec := Some e; s_args := Some args; s_next := s_next s |}, e, true)
       end.

(* what happens to the executor between two Parallel calls *)
Inductive eop :=
| OGet (n args : Z)      (* a loky Parallel call is configured with resolved n_jobs n *)
| OSubmit                (* tasks are submitted: _adjust_process_count spawns workers up to _max_workers *)
| OTimeout (k : Z)       (* k idle workers exit on their own *)
| OBreak                 (* a worker dies abruptly: the executor is flagged broken *)
| OShutdown.             (* the executor is shut down *)

Definition on_exec (f : executor -> executor) (s : estate) : estate :=
  {| s_exec := option_map f (s_exec s); s_args := s_args s; s_next := s_next s |}.

Definition estep (s : estate) (o : eop) : estate :=
  match o with
  | OGet n args => match get_executor n args s with Ok (s', _, _) => s' | Raise _ => s end
  | OSubmit => on_exec (fun e => if x_broken e || x_shutdown e then e else
      {| x_id := x_id e; x_max := x_max e; x_alive := x_max e; x_started := true;
         x_broken := false; x_shutdown := false |}) s
  | OTimeout k => on_exec (fun e =>
      {| x_id := x_id e; x_max := x_max e; x_alive := Z.max 0 (x_alive e - Z.max 0 k); x_started := x_started e;
         x_broken := x_broken e; x_shutdown := x_shutdown e |}) s
  | OBreak => on_exec (fun e =>
      {| x_id := x_id e; x_max := x_max e; x_alive := 0; x_started := x_started e; x_broken := true; x_shutdown := x_shutdown e |}) s
  | OShutdown => on_exec (fun e =>
      {| x_id := x_id e; x_max := x_max e; x_alive := 0; x_started := x_started e; x_broken := x_broken e; x_shutdown := true |}) s
  end.

Definition erun (ops : list eop) (s : estate) : estate := fold_left estep ops s.

(* never more live workers than the size the executor currently has *)
Definition exec_ok (s : estate) : Prop :=
  match s_exec s with None => True | Some e => 0 <= x_alive e <= x_max e /\ 1 <= x_max e end.

(* size of the executor that REPLACES one which cannot be reused: the requested one, or (if the source reassigns it) the dead one's *)
Definition replacement_size (requested_ok : bool) (requested dead : Z) : Z := if requested_ok then requested else dead.
