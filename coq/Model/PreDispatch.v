(* The evaluator of string values of Parallel's `pre_dispatch` argument: joblib/_utils.py eval_expr / eval_ over the
   table `operators`, followed by int() in Parallel.__call__ (truncation).  `n_jobs` is substituted textually before
   the evaluation, so expressions are closed arithmetic terms.  Values are exact rationals here: the real evaluation
   uses Python ints and floats; the correspondence check compares the two where the float computation is exact.
   Which function of module `operator` each syntactic operator is mapped to is NOT fixed here: it is the regenerated
   table Gen/T_operators.v (read from the source on every run). *)
From Coq Require Import QArith ZArith List.
Import ListNotations.
Open Scope Q_scope.

Inductive bop := OAdd | OSub | OMul | ODiv | OFloorDiv | OMod | OPow.
Inductive pyop := PAdd | PSub | PMul | PTrueDiv | PFloorDiv | PMod | PPow | PNeg | PPos.
Inductive expr := EConst (q : Q) | EBin (o : bop) (l r : expr) | ENeg (e : expr).

Definition Qfloor' (q : Q) : Z := Z.div (Qnum q) (Zpos (Qden q)).
(* int(x): truncation toward zero *)
Definition Qtrunc (q : Q) : Z := Z.quot (Qnum q) (Zpos (Qden q)).

Definition is_zero (q : Q) : bool := Z.eqb (Qnum q) 0.

(* q ^ z for an integral exponent (the only powers the model covers) *)
Definition qpow (q : Q) (e : Q) : option Q :=
  if Pos.eqb (Qden e) 1 then
    (if is_zero q && (Qnum e <? 0)%Z then None else Some (Qpower q (Qnum e)))
  else None.

Definition apply_op (p : pyop) (a b : Q) : option Q :=
  match p with
  | PAdd => Some (a + b)
  | PSub => Some (a - b)
  | PMul => Some (a * b)
  | PTrueDiv => if is_zero b then None else Some (a / b)
  | PFloorDiv => if is_zero b then None else Some (inject_Z (Qfloor' (a / b)))
  | PMod => if is_zero b then None else Some (a - b * inject_Z (Qfloor' (a / b)))
  | PPow => qpow a b
  | PNeg | PPos => None          (* unary functions are not binary operators *)
  end.

Definition apply_unary (p : pyop) (a : Q) : option Q :=
  match p with PNeg => Some (- a) | PPos => Some a | _ => None end.

Section Eval.
Variable table : bop -> pyop.
Variable neg : pyop.

Fixpoint eval (e : expr) : option Q :=
  match e with
  | EConst q => Some q
  | EBin o l r =>
    match eval l, eval r with
    | Some a, Some b => apply_op (table o) a b
    | _, _ => None
    end
  | ENeg e1 => match eval e1 with Some a => apply_unary neg a | None => None end
  end.

(* int(eval_expr(s)) *)
Definition pre_amount (e : expr) : option Z := option_map Qtrunc (eval e).
End Eval.

(* what the correspondence prints: numerator, denominator of the value and the truncated amount *)
Definition show_eval (table : bop -> pyop) (neg : pyop) (e : expr) : list Z :=
  match eval table neg e with
  | Some q => let r := Qred q in [1; Qnum r; Zpos (Qden r); Qtrunc q]%Z
  | None => [0]%Z
  end.
