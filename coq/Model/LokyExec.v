(* M10b -- failure handling of the vendored loky executor as joblib drives it.

   Modelled code (statement by statement, names kept):
     joblib/externals/loky/process_executor.py
        ProcessPoolExecutor.submit / _ensure_executor_running / _adjust_process_count / shutdown
        _ExecutorManagerThread.run / add_call_item_to_queue / wait_result_broken_or_wakeup /
          process_result_item / is_shutting_down / terminate_broken / flag_executor_shutting_down /
          kill_workers / join_executor_internals,  _ExecutorFlags, _process_worker (worker side)
     joblib/externals/loky/reusable_executor.py   _ReusablePoolExecutor.get_reusable_executor
     joblib/executor.py                           MemmappingExecutor.terminate
     joblib/_parallel_backends.py                 LokyBackend.configure/submit/abort_everything/terminate
     joblib/parallel.py                           the part of __call__/_retrieve/_abort that reacts to a
                                                  failed future (call layer, deliberately coarse: M1 is C01/C04)

   Executable definitions only; proofs are in Proofs/LokyExec*.v.

   What is NOT in the model (OS level, see design.d/C10.md): that a dead process makes its sentinel
   readable, pipe buffering, latency, the queue feeder thread, _resize (max_workers is constant),
   garbage collection of the executor, interpreter shutdown, future cancellation (joblib never cancels). *)
From Coq Require Import ZArith List Bool Arith Lia.
Import ListNotations.

(* ---------------------------------------------------------------- vocabulary *)
Inductive bpe := TerminatedWorkerError | BrokenProcessPool.          (* what flag_as_broken stores *)
Inductive fexc := TaskError (c : Z) | PoolError (b : bpe) | ShutdownExecutorError.
Inductive fut := FNone | FPending | FRunning | FResult (r : Z) | FExc (e : fexc).
(* one message in the result pipe *)
Inductive msg :=
| MRes (id : nat) (r : Z)        (* _ResultItem(work_id, result=r) *)
| MErr (id : nat) (c : Z)        (* _ResultItem(work_id, exception=...) *)
| MPid (p : nat)                 (* clean worker exit announces its pid *)
| MRemoteTb                      (* _RemoteTraceback: call_queue.get raised in the worker *)
| MGarbage                       (* bytes whose unpickling raises in the parent *)
| MPartial.                      (* a message whose writer died before writing all of it *)
Inductive mgr_pc := NotStarted | AtFeed | AtWait | Exited | Stuck | Crashed.
(* WDead abstracts from HOW the process ended: killed by any signal, os._exit(k) for any k -- exit status 0
   included --, sys.exit(1) after a failed call-item load.  The code must (and does) treat every exit of a
   process that is still in _processes as a death: the sentinel becomes ready whatever the status, and
   wait_result_broken_or_wakeup never looks at p.exitcode to decide (only to word the message).  Tied by the
   exit-status dimension of the fault-injection scenarios (exit:0, exit:1, exit:3, exit:255 at every instant). *)
Inductive wstate := WNone | WIdle | WBusy (id : nat) | WExiting | WDead.

Definition finished (f : fut) : bool :=
  match f with FResult _ | FExc _ => true | _ => false end.

Definition memb (x : nat) (l : list nat) : bool := existsb (Nat.eqb x) l.
(* list.remove(x): first occurrence *)
Fixpoint remove1 (x : nat) (l : list nat) : list nat :=
  match l with [] => [] | y :: t => if Nat.eqb x y then t else y :: remove1 x t end.
(* dict.pop(x): keys are unique *)
Definition popkey (x : nat) (l : list nat) : list nat := filter (fun y => negb (Nat.eqb y x)) l.
Definition upd {A} (f : nat -> A) (i : nat) (v : A) : nat -> A :=
  fun j => if Nat.eqb j i then v else f j.

Record exec := mkExec {
  broken : option bpe;          (* _ExecutorFlags.broken *)
  shutdown : bool;              (* _ExecutorFlags.shutdown *)
  killw : bool;                 (* _ExecutorFlags.kill_workers *)
  maxw : nat;                   (* _max_workers *)
  qcap : nat;                   (* call queue capacity: 2*cpu_count()+EXTRA_QUEUED_CALLS *)
  procs : list nat;             (* keys of executor._processes *)
  wk : nat -> wstate;           (* OS view of every process this executor ever spawned *)
  pidc : nat;                   (* next fresh pid *)
  futs : nat -> fut;            (* every Future created by submit, by work id *)
  nfut : nat;                   (* _queue_count *)
  pending : list nat;           (* keys of _pending_work_items, insertion order *)
  work_ids : list nat;          (* _work_ids queue *)
  running : list nat;           (* _running_work_items *)
  callq : list nat;             (* _call_queue content *)
  resq : list msg;              (* _result_queue pipe content *)
  wakeup : bool;                (* _ThreadWakeup pipe non-empty *)
  mgr : mgr_pc;                 (* where the executor manager thread is *)
  faulted : bool                (* ghost: a fault event happened on this executor *)
}.

Definition new_exec (mw qc pid0 : nat) : exec :=
  mkExec None false false mw qc [] (fun _ => WNone) pid0 (fun _ => FNone) 0 [] [] [] [] [] false NotStarted false.

(* record update helpers (Coq 8.16 has no built-in update syntax) *)
Definition set_futs e v := mkExec (broken e) (shutdown e) (killw e) (maxw e) (qcap e) (procs e) (wk e) (pidc e) v (nfut e) (pending e) (work_ids e) (running e) (callq e) (resq e) (wakeup e) (mgr e) (faulted e).
Definition set_mgr e v := mkExec (broken e) (shutdown e) (killw e) (maxw e) (qcap e) (procs e) (wk e) (pidc e) (futs e) (nfut e) (pending e) (work_ids e) (running e) (callq e) (resq e) (wakeup e) v (faulted e).
Definition set_wk e v := mkExec (broken e) (shutdown e) (killw e) (maxw e) (qcap e) (procs e) v (pidc e) (futs e) (nfut e) (pending e) (work_ids e) (running e) (callq e) (resq e) (wakeup e) (mgr e) (faulted e).
Definition set_resq e v := mkExec (broken e) (shutdown e) (killw e) (maxw e) (qcap e) (procs e) (wk e) (pidc e) (futs e) (nfut e) (pending e) (work_ids e) (running e) (callq e) v (wakeup e) (mgr e) (faulted e).
Definition set_wakeup e v := mkExec (broken e) (shutdown e) (killw e) (maxw e) (qcap e) (procs e) (wk e) (pidc e) (futs e) (nfut e) (pending e) (work_ids e) (running e) (callq e) (resq e) v (mgr e) (faulted e).
Definition set_callq e v := mkExec (broken e) (shutdown e) (killw e) (maxw e) (qcap e) (procs e) (wk e) (pidc e) (futs e) (nfut e) (pending e) (work_ids e) (running e) v (resq e) (wakeup e) (mgr e) (faulted e).
Definition set_pending e v := mkExec (broken e) (shutdown e) (killw e) (maxw e) (qcap e) (procs e) (wk e) (pidc e) (futs e) (nfut e) v (work_ids e) (running e) (callq e) (resq e) (wakeup e) (mgr e) (faulted e).
Definition set_running e v := mkExec (broken e) (shutdown e) (killw e) (maxw e) (qcap e) (procs e) (wk e) (pidc e) (futs e) (nfut e) (pending e) (work_ids e) v (callq e) (resq e) (wakeup e) (mgr e) (faulted e).
Definition set_procs e v := mkExec (broken e) (shutdown e) (killw e) (maxw e) (qcap e) v (wk e) (pidc e) (futs e) (nfut e) (pending e) (work_ids e) (running e) (callq e) (resq e) (wakeup e) (mgr e) (faulted e).
Definition set_faulted e v := mkExec (broken e) (shutdown e) (killw e) (maxw e) (qcap e) (procs e) (wk e) (pidc e) (futs e) (nfut e) (pending e) (work_ids e) (running e) (callq e) (resq e) (wakeup e) (mgr e) v.
Definition set_flags e b s k := mkExec b s k (maxw e) (qcap e) (procs e) (wk e) (pidc e) (futs e) (nfut e) (pending e) (work_ids e) (running e) (callq e) (resq e) (wakeup e) (mgr e) (faulted e).

(* ------------------------------------------------- ProcessPoolExecutor side *)
(* one iteration of the while loop of _adjust_process_count: Process(...).start() *)
Definition spawn1 (e : exec) : exec :=
  let p := pidc e in
  mkExec (broken e) (shutdown e) (killw e) (maxw e) (qcap e) (procs e ++ [p]) (upd (wk e) p WIdle) (S p)
         (futs e) (nfut e) (pending e) (work_ids e) (running e) (callq e) (resq e) (wakeup e) (mgr e) (faulted e).

Fixpoint spawn_n (n : nat) (e : exec) : exec :=
  match n with O => e | S k => spawn_n k (spawn1 e) end.

(* while len(self._processes) < self._max_workers *)
Definition adjust_process_count (e : exec) : exec := spawn_n (maxw e - length (procs e)) e.

(* _ensure_executor_running *)
Definition ensure_running (e : exec) : exec :=
  let e1 := if Nat.eqb (length (procs e)) (maxw e) then e else adjust_process_count e in
  match mgr e1 with NotStarted => set_mgr e1 AtFeed | _ => e1 end.

Inductive sres := SOk (id : nat) | SRaise (x : fexc).

(* ProcessPoolExecutor.submit (under shutdown_lock) *)
Definition submit (e : exec) : exec * sres :=
  match broken e with
  | Some b => (e, SRaise (PoolError b))
  | None =>
    if shutdown e then (e, SRaise ShutdownExecutorError)
    else
      let id := nfut e in
      let e1 := mkExec (broken e) (shutdown e) (killw e) (maxw e) (qcap e) (procs e) (wk e) (pidc e)
                       (upd (futs e) id FPending) (S id) (pending e ++ [id]) (work_ids e ++ [id])
                       (running e) (callq e) (resq e) true (mgr e) (faulted e) in
      (ensure_running e1, SOk id)
  end.

(* ProcessPoolExecutor.shutdown(kill_workers=k) up to (not including) the join of the manager thread:
   flag_as_shutting_down(k); wakeup() (a closed _ThreadWakeup ignores it) *)
Definition shutdown_flag (k : bool) (e : exec) : exec :=
  let e1 := set_flags e (broken e) true k in
  match mgr e1 with Exited | Crashed => e1 | _ => set_wakeup e1 true end.

(* ------------------------------------------------------------ manager thread *)
(* add_call_item_to_queue; the loop runs at most |work_ids| times *)
Fixpoint feed_loop (fuel : nat) (e : exec) : exec :=
  match fuel with
  | O => e
  | S k =>
    if Nat.leb (qcap e) (length (callq e)) then e                      (* call_queue.full() *)
    else match work_ids e with
         | [] => e                                                    (* queue.Empty *)
         | id :: rest =>
           (* work_item = self.pending_work_items[work_id]: KeyError kills the manager thread;
              set_running_or_notify_cancel() is True: joblib never cancels a future *)
           if memb id (pending e) then
             feed_loop k (mkExec (broken e) (shutdown e) (killw e) (maxw e) (qcap e) (procs e) (wk e) (pidc e)
                                 (upd (futs e) id FRunning) (nfut e) (pending e) rest (running e ++ [id])
                                 (callq e ++ [id]) (resq e) (wakeup e) (mgr e) (faulted e))
           else set_mgr e Crashed
         end
  end.

Definition add_call_item_to_queue (e : exec) : exec := feed_loop (length (work_ids e)) e.

(* Future.set_exception / set_result on a future that is already finished raises InvalidStateError:
   the second component says the manager thread crashed *)
Fixpoint fail_ids (x : fexc) (ids : list nat) (f : nat -> fut) : (nat -> fut) * bool :=
  match ids with
  | [] => (f, false)
  | id :: t => if finished (f id) then (f, true) else fail_ids x t (upd f id (FExc x))
  end.

(* kill_workers: popitem + kill_process_tree until _processes is empty *)
Definition kill_workers (e : exec) : exec :=
  set_procs (set_wk e (fun p => if memb p (procs e) then WDead else wk e p)) [].

(* join_executor_internals: sentinels to the live workers, close the queues and the wake-up pipe,
   join every process (they exit on the None sentinel) *)
Definition join_executor_internals (e : exec) : exec :=
  let e1 := kill_workers e in   (* same OS-level end state: every process of _processes is gone *)
  set_wakeup (set_callq e1 []) false.

(* terminate_broken(bpe) *)
Definition terminate_broken (b : bpe) (e : exec) : exec :=
  let e1 := set_flags e (Some b) true (killw e) in              (* flag_as_broken *)
  let '(f, crashed) := fail_ids (PoolError b) (pending e1) (futs e1) in
  if crashed then set_mgr (set_futs e1 f) Crashed
  else
    let e2 := set_pending (set_futs e1 f) [] in                 (* pending_work_items.clear();
                                                                   running_work_items is left as it is *)
    set_mgr (join_executor_internals (kill_workers e2)) Exited.

(* flag_executor_shutting_down *)
Definition flag_executor_shutting_down (e : exec) : exec :=
  let e1 := set_flags e (broken e) true (killw e) in
  if killw e1 then
    let '(f, crashed) := fail_ids ShutdownExecutorError (rev (pending e1)) (futs e1) in   (* popitem: LIFO *)
    if crashed then set_mgr (set_futs e1 f) Crashed
    else kill_workers (set_pending (set_futs e1 f) [])
  else e1.

(* process_result_item *)
Definition process_result_item (m : msg) (e : exec) : exec :=
  match m with
  | MPid p =>
    let e1 := if memb p (procs e)
              then set_wk (set_procs e (popkey p (procs e))) (upd (wk e) p WDead)  (* pop, release lock, join *)
              else e in
    let n_pending := length (pending e1) in
    let n_running := length (running e1) in
    if (Nat.ltb n_running n_pending || Nat.ltb (length (procs e1)) n_running)%bool
    then if Nat.ltb (length (procs e1)) (maxw e1) then adjust_process_count e1 else e1
    else e1
  | MRes id r =>
    if memb id (pending e)                                          (* pending_work_items.pop(id, None) *)
    then if finished (futs e id) then set_mgr e Crashed
         else set_running (set_pending (set_futs e (upd (futs e) id (FResult r))) (popkey id (pending e)))
                          (remove1 id (running e))
    else e
  | MErr id c =>
    if memb id (pending e)
    then if finished (futs e id) then set_mgr e Crashed
         else set_running (set_pending (set_futs e (upd (futs e) id (FExc (TaskError c)))) (popkey id (pending e)))
                          (remove1 id (running e))
    else e
  | _ => e
  end.

(* One sentinel per process of _processes, ready iff that process is dead.  That the OS makes the sentinel
   ready WHEN the worker dies is an assumption (the read end sees EOF only once every copy of the write end is
   closed: a copy inherited by some other process -- e.g. the dead worker's own nested loky workers -- would keep
   it open); it is tied by the `nested` dimension of the fault-injection scenarios, not by the model. *)
Definition sentinel_ready (e : exec) : bool :=
  existsb (fun p => match wk e p with WDead => true | _ => false end) (procs e).

Definition is_crashed (e : exec) : bool := match mgr e with Crashed => true | _ => false end.

(* the rest of one iteration of run() after wait_result_broken_or_wakeup returned "not broken" *)
Definition after_wait (item : option msg) (e : exec) : exec :=
  let e1 := match item with Some m => process_result_item m e | None => e end in
  if is_crashed e1 then e1
  else if (shutdown e1 && match broken e1 with None => true | _ => false end)%bool      (* is_shutting_down *)
  then
    let e2 := flag_executor_shutting_down e1 in
    if is_crashed e2 then e2
    else match pending e2 with
         | [] => set_mgr (join_executor_internals e2) Exited
         | _ => set_mgr e2 AtFeed
         end
  else set_mgr e1 AtFeed.

(* wait_result_broken_or_wakeup + the branch taken by run().  Blocked (no reader ready) = unchanged. *)
Definition manager_wake (e : exec) : exec :=
  match mgr e with
  | AtWait =>
    match resq e with
    | m :: rest =>                                              (* result_reader in ready *)
      match m with
      | MPartial => set_mgr e Stuck                             (* recv() never returns *)
      | MRemoteTb => terminate_broken BrokenProcessPool (set_wakeup (set_resq e rest) false)
      | MGarbage => terminate_broken BrokenProcessPool (set_wakeup (set_resq e rest) false)
      | _ => after_wait (Some m) (set_wakeup (set_resq e rest) false)
      end
    | [] =>
      if wakeup e then after_wait None (set_wakeup e false)     (* wakeup_reader in ready *)
      else if sentinel_ready e then terminate_broken TerminatedWorkerError e
      else e                                                    (* wait() still blocked *)
    end
  | _ => e
  end.

(* What the code hands to wait() is the sentinel list built when the manager ENTERED
   wait_result_broken_or_wakeup; [watch] is that list.  [manager_wake] above is the case watch = procs e,
   i.e. no process was added to _processes since the manager went to sleep.  A submit that has to respawn
   workers (they exited on idle time-out) wakes the manager up BEFORE it spawns them, so the manager could be
   back in wait() with a list that lacks the new workers: that was the behaviour before fix F38
   (C10_stale_watch_refuted); since the fix submit wakes the manager up once more after spawning (M10c). *)
Definition manager_wake_watch (watch : list nat) (e : exec) : exec :=
  match mgr e with
  | AtWait =>
    match resq e with
    | m :: rest =>
      match m with
      | MPartial => set_mgr e Stuck
      | MRemoteTb => terminate_broken BrokenProcessPool (set_wakeup (set_resq e rest) false)
      | MGarbage => terminate_broken BrokenProcessPool (set_wakeup (set_resq e rest) false)
      | _ => after_wait (Some m) (set_wakeup (set_resq e rest) false)
      end
    | [] =>
      if wakeup e then after_wait None (set_wakeup e false)
      else if existsb (fun p => match wk e p with WDead => true | _ => false end) watch
           then terminate_broken TerminatedWorkerError e
           else e
    end
  | _ => e
  end.

Definition manager_feed (e : exec) : exec :=
  match mgr e with
  | AtFeed => let e1 := add_call_item_to_queue e in if is_crashed e1 then e1 else set_mgr e1 AtWait
  | _ => e
  end.

(* ------------------------------------------------------------- worker side *)
Definition alive_in (e : exec) (p : nat) : bool := memb p (procs e).

(* call_queue.get returns a _CallItem *)
Definition worker_take (p : nat) (e : exec) : exec :=
  match wk e p, callq e with
  | WIdle, id :: rest => set_callq (set_wk e (upd (wk e) p (WBusy id))) rest
  | _, _ => e
  end.

(* the task returned / raised; result_queue.put completes *)
Definition worker_send (p : nat) (mk : nat -> msg) (e : exec) : exec :=
  match wk e p with
  | WBusy id => set_resq (set_wk e (upd (wk e) p WIdle)) (resq e ++ [mk id])
  | _ => e
  end.

(* the result bytes do not unpickle in the parent *)
Definition worker_send_garbage (p : nat) (e : exec) : exec :=
  match wk e p with
  | WBusy id => set_faulted (set_resq (set_wk e (upd (wk e) p WIdle)) (resq e ++ [MGarbage])) true
  | _ => e
  end.

(* call_queue.get raised while unpickling the call item: put(_RemoteTraceback); sys.exit(1) *)
Definition worker_bad_args (p : nat) (e : exec) : exec :=
  match wk e p, callq e with
  | WIdle, id :: rest =>
    set_faulted (set_resq (set_callq (set_wk e (upd (wk e) p WDead)) rest) (resq e ++ [MRemoteTb])) true
  | _, _ => e
  end.

(* idle time-out: result_queue.put(pid); wait for _worker_exit_lock *)
Definition worker_retire (p : nat) (e : exec) : exec :=
  match wk e p with
  | WIdle => set_resq (set_wk e (upd (wk e) p WExiting)) (resq e ++ [MPid p])
  | _ => e
  end.

Definition is_proc (e : exec) (p : nat) : bool :=
  match wk e p with WNone => false | _ => true end.

(* SIGKILL / SIGSEGV / os._exit in any state *)
Definition worker_die (p : nat) (e : exec) : exec :=
  if is_proc e p then set_faulted (set_wk e (upd (wk e) p WDead)) true else e.

(* killed after writing the header and part of the payload of its result message *)
Definition worker_die_midsend (p : nat) (e : exec) : exec :=
  match wk e p with
  | WBusy id => set_faulted (set_resq (set_wk e (upd (wk e) p WDead)) (resq e ++ [MPartial])) true
  | _ => e
  end.

(* ------------------------------------------------------- executor-level events *)
Inductive event :=
| Submit
| Feed
| ManagerWake
| Take (p : nat)
| Result (p : nat) (r : Z)
| ResultExc (p : nat) (c : Z)
| ResultGarbage (p : nat)
| BadArgs (p : nat)
| Retire (p : nat)
| Die (p : nat)
| DieMidSend (p : nat)
| Shutdown (kill : bool).

Definition step (e : exec) (ev : event) : exec :=
  match ev with
  | Submit => fst (submit e)
  | Feed => manager_feed e
  | ManagerWake => manager_wake e
  | Take p => worker_take p e
  | Result p r => worker_send p (fun id => MRes id r) e
  | ResultExc p c => worker_send p (fun id => MErr id c) e
  | ResultGarbage p => worker_send_garbage p e
  | BadArgs p => worker_bad_args p e
  | Retire p => worker_retire p e
  | Die p => worker_die p e
  | DieMidSend p => worker_die_midsend p e
  | Shutdown k => shutdown_flag k e
  end.

Definition run (e : exec) (evs : list event) : exec := fold_left step evs e.

(* the manager thread running alone for n loop iterations *)
Fixpoint manager_run (n : nat) (e : exec) : exec :=
  match n with O => e | S k => manager_run k (manager_wake (manager_feed e)) end.

Definition is_fault (ev : event) : bool :=
  match ev with Die _ | DieMidSend _ | ResultGarbage _ | BadArgs _ => true | _ => false end.

(* ------------------------------------------------------------ pool + caller *)
(* One Parallel object using the process-wide reusable executor.  [cur] is
   reusable_executor._executor, [has_workers] says LokyBackend._workers is not None (it then is [cur]). *)
Inductive outcome := OReturn (rs : list Z) | ORaise (x : fexc).

Record call_st := mkCall {
  ntasks : nat;                 (* tasks of this call (batch size 1) *)
  ids : list nat;               (* futures dispatched so far, dispatch order *)
  first_error : option fexc;    (* the outcome registered by the first failing completion callback *)
  aborting : bool               (* _abort() started: waiting in executor.shutdown(wait=True) *)
}.

Record pool := mkPool {
  cur : option exec;
  has_workers : bool;
  managed : bool;               (* inside `with Parallel(...)` *)
  call : option call_st;
  outcomes : list outcome;      (* results of the finished calls, most recent first *)
  n_faults : nat;               (* ghost: fault events so far *)
  consumed : bool;              (* ghost: a call already raised a pool error because of [cur] *)
  p_maxw : nat; p_qcap : nat
}.

Definition init_pool (mw qc : nat) : pool := mkPool None false false None [] 0 false mw qc.

Definition set_cur s v := mkPool v (has_workers s) (managed s) (call s) (outcomes s) (n_faults s) (consumed s) (p_maxw s) (p_qcap s).
Definition set_call s v := mkPool (cur s) (has_workers s) (managed s) v (outcomes s) (n_faults s) (consumed s) (p_maxw s) (p_qcap s).

Definition mgr_gone (e : exec) : bool :=
  match mgr e with NotStarted | Exited | Crashed => true | _ => false end.

(* get_reusable_executor with unchanged arguments (reuse = True):
   None = the caller is blocked in executor.shutdown(wait=True) (join of the manager thread) *)
Definition get_reusable (s : pool) : pool * bool :=
  match cur s with
  | None => (set_cur s (Some (new_exec (p_maxw s) (p_qcap s) 0)), true)
  | Some e =>
    if (match broken e with Some _ => true | None => false end || shutdown e)%bool
    then
      (* executor.shutdown(wait=True, kill_workers=False): flag_as_shutting_down(False) overwrites
         kill_workers (False is not None), wakes the manager up, joins it *)
      let e1 := shutdown_flag false e in
      if mgr_gone e1
      then (mkPool (Some (new_exec (p_maxw s) (p_qcap s) (pidc e1))) (has_workers s) (managed s) (call s)
                   (outcomes s) (n_faults s) false (p_maxw s) (p_qcap s), true)
      else (set_cur s (Some e1), false)
    else (s, true)                               (* reused; _resize(max_workers) returns at once *)
  end.

(* LokyBackend.configure *)
Definition configure (s : pool) : pool * bool :=
  let '(s1, ok) := get_reusable s in
  if ok then (mkPool (cur s1) true (managed s1) (call s1) (outcomes s1) (n_faults s1) (consumed s1) (p_maxw s1) (p_qcap s1), true)
  else (s1, false).

Definition results_of (f : nat -> fut) (l : list nat) : option (list Z) :=
  fold_right (fun id acc => match f id, acc with FResult r, Some rs => Some (r :: rs) | _, _ => None end) (Some []) l.

Definition is_pool_error (x : fexc) : bool := match x with PoolError _ => true | _ => false end.

(* the first future of the call (dispatch order = the order in which terminate_broken fails them) that
   holds an exception *)
Fixpoint first_exc (f : nat -> fut) (l : list nat) : option fexc :=
  match l with
  | [] => None
  | id :: t => match f id with FExc x => Some x | _ => first_exc f t end
  end.

(* end of a call that raises: record, _workers = None, re-configure when managed *)
Definition finish_raise (x : fexc) (s : pool) : pool :=
  let s1 := mkPool (cur s) false (managed s) None (ORaise x :: outcomes s) (n_faults s)
                   (consumed s || is_pool_error x)%bool (p_maxw s) (p_qcap s) in
  s1.

Inductive pevent :=
| WithEnter                     (* Parallel.__enter__ : _initialize_backend *)
| WithExit                      (* Parallel.__exit__ *)
| CallBegin (n : nat)           (* Parallel.__call__ up to the first dispatch *)
| Dispatch                      (* _dispatch -> LokyBackend.submit *)
| Poll                          (* one turn of the _retrieve loop / its end *)
| AbortJoin                     (* abort_everything after executor.shutdown(wait=True) returned *)
| Ex (ev : event).              (* manager / worker / fault event on the current executor *)

Definition with_cur (s : pool) (f : exec -> exec) : pool :=
  match cur s with Some e => set_cur s (Some (f e)) | None => s end.

(* completion callbacks run in the manager thread: the first future of the call seen failed is the
   error the call will raise *)
Definition note_error (s : pool) : pool :=
  match call s, cur s with
  | Some c, Some e =>
    match first_error c with
    | Some _ => s
    | None => set_call s (Some (mkCall (ntasks c) (ids c) (first_exc (futs e) (ids c)) (aborting c)))
    end
  | _, _ => s
  end.

(* a manager / worker / fault event on the current executor, seen from the pool *)
Definition pex (s : pool) (ev : event) : pool :=
  let s1 := with_cur s (fun e => step e ev) in
  let s2 := mkPool (cur s1) (has_workers s1) (managed s1) (call s1) (outcomes s1)
                   (if is_fault ev then S (n_faults s1) else n_faults s1) (consumed s1) (p_maxw s1) (p_qcap s1) in
  note_error s2.

Definition pstep (s : pool) (ev : pevent) : pool :=
  match ev with
  | WithEnter =>
    match call s with
    | Some _ => s
    | None => if managed s then s else
      let '(s1, ok) := configure s in
      if ok then mkPool (cur s1) (has_workers s1) true (call s1) (outcomes s1) (n_faults s1) (consumed s1) (p_maxw s1) (p_qcap s1)
      else s1
    end
  | WithExit =>
    match call s with
    | Some _ => s
    | None => mkPool (cur s) false false None (outcomes s) (n_faults s) (consumed s) (p_maxw s) (p_qcap s)
    end
  | CallBegin n =>
    match call s with
    | Some _ => s
    | None =>
      let '(s1, ok) := if managed s
                       then (s, (has_workers s && match cur s with Some _ => true | None => false end)%bool)
                       else configure s in
      if ok then set_call s1 (Some (mkCall n [] None false)) else s1
    end
  | Dispatch =>
    match call s, cur s with
    | Some c, Some e =>
      if (aborting c || match first_error c with Some _ => true | None => false end
          || Nat.leb (ntasks c) (length (ids c)))%bool then s
      else
        match submit e with
        | (e1, SOk id) => set_call (set_cur s (Some e1)) (Some (mkCall (ntasks c) (ids c ++ [id]) None false))
        | (e1, SRaise x) =>
          (* submit raised in the dispatching thread: _get_outputs' except clause -> _abort() *)
          set_call (set_cur s (Some (shutdown_flag true e1))) (Some (mkCall (ntasks c) (ids c) (Some x) true))
        end
    | _, _ => s
    end
  | Poll =>
    match call s, cur s with
    | Some c, Some e =>
      if aborting c then s
      else match first_error c with
           | Some x =>        (* _aborting: _raise_error_fast, then _abort(): terminate(kill_workers=True) *)
             set_call (set_cur s (Some (shutdown_flag true e))) (Some (mkCall (ntasks c) (ids c) (Some x) true))
           | None =>
             if Nat.eqb (length (ids c)) (ntasks c) then
               match results_of (futs e) (ids c) with
               | Some rs =>   (* every batch completed: the list is returned; backend.terminate() *)
                 mkPool (cur s) (managed s && has_workers s)%bool (managed s) None (OReturn rs :: outcomes s)
                        (n_faults s) (consumed s) (p_maxw s) (p_qcap s)
               | None => s
               end
             else s
           end
    | _, _ => s
    end
  | AbortJoin =>
    match call s, cur s with
    | Some c, Some e =>
      if (aborting c && mgr_gone e)%bool then
        match first_error c with
        | Some x =>
          let s1 := finish_raise x s in
          if managed s1 then fst (configure s1) else s1     (* ensure_ready: the manager is gone, never blocks *)
        | None => s
        end
      else s
    | _, _ => s
    end
  | Ex ev =>
    match ev with
    | Submit => s                        (* submissions only come from Dispatch *)
    | Shutdown _ => s                    (* shutdown only comes from _abort / get_reusable_executor *)
    | _ => pex s ev
    end
  end.

Definition prun (s : pool) (evs : list pevent) : pool := fold_left pstep evs s.

Definition n_pool_raises (s : pool) : nat :=
  length (filter (fun o => match o with ORaise (PoolError _) => true | _ => false end) (outcomes s)).
