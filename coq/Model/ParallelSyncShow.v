(* Encoders used by the correspondence check to print runs of Model/ParallelSync.v. *)
From Coq Require Import List Bool Arith.
Require Import JV.Model.ParallelCore JV.Model.ParallelShow JV.Model.ParallelSync.
Import ListNotations.

(* returned list: 0 :: values ; raised: 2 :: error code *)
Definition sobs_code (o : sobs) : list nat :=
  match o with SReturned l => 0 :: l | SRaised e => 2 :: err_code e end.

Fixpoint srun_show (s : sst) (es : list sev) : list (list (list nat) * list nat * list (list nat)) :=
  match es with
  | [] => []
  | e :: r => let '(s1, o) := sstep s e in (map sobs_code o, ssnap s1, submitted (base s1)) :: srun_show s1 r
  end.
