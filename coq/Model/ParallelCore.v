(* M1 -- executable model of joblib.Parallel's dispatch / completion / retrieval protocol
   (joblib/parallel.py: Parallel.__call__, _reset_run_tracking, _start, dispatch_one_batch,
   _dispatch, dispatch_next, _get_outputs, _retrieve, _wait_retrieval, _raise_error_fast,
   _abort; BatchCompletionCallBack.__call__, _dispatch_new, _register_outcome, get_status),
   for an asynchronous backend with supports_retrieve_callback = True and n_jobs >= 2.

   Layer A: every region executed under Parallel._lock and every caller-side statement block
   between two points where another thread can be scheduled by the harness is ONE event:
     ECall      __call__ up to the entry of _start (reset, call id, iterator set-up)
     EDispatch  one dispatch_one_batch of the caller thread inside _start (batch size = oracle)
     ECbStart   first locked section of the completion callback (stale/abort guards, outcome)
     ECbFinish  second locked section (_dispatch_new: counter, dispatch_next)
     EPull      the consumer asks the output generator for the next value
     EClose     the consumer closes / drops the generator
     ETimeout   the retrieval loop finds its head job pending for longer than `timeout`
   Tasks are identified with their index in the input (0..N-1); the value of task i is `run i`
   for a fixed function, so an output stream is a list of indices.
   Executable definitions only; proofs are in Proofs/Parallel*.v. *)
From Coq Require Import List Bool Arith PeanoNat.
Import ListNotations.

Inductive err := ErrTask (i : nat) | ErrIter | ErrTimeout | ErrRuntime | ErrAttr | ErrBackend.
Inductive status := Pending | Done | Failed (e : err).
Inductive pre_t := PreAll | PreN (n : nat).
Inductive mode_t := Ordered | Unordered.

Record cfg := { n_jobs : nat; pre : pre_t; mode : mode_t }.

Record tracker := { tk_cid : nat; tk_tasks : list nat; tk_status : status }.

Inductive phase_t :=
| Idle                      (* no call yet / generator finished *)
| StartFirst | StartLoop    (* inside _start *)
| Retrieving                (* inside _retrieve's loop (try block) *)
| Draining (rem : list nat) (* after the finally block: yielding the remaining outputs *)
| Finished.

(* what the consumer observes for one request *)
Inductive obs := Val (v : nat) | Stop | Raised (e : err).

Record st := {
  cid : nat; running : bool;
  c : cfg; N : nat; ifail : option nat;
  taken : nat; pre_left : option nat;
  ready : list (list nat);
  trk : list tracker;            (* every tracker ever created, by id = position *)
  jobs : list nat; jset : list nat;
  inflight : list nat;           (* submitted, completion callback not started *)
  cbmid : list nat;              (* callback between its two locked sections *)
  n_disp : nat; n_comp : nat;
  iterating : bool; aborting : bool; exception : bool; orig : bool;
  phase : phase_t;
  pend_out : list nat;
  want : bool;
  submitted : list (list nat);   (* ghost: batches handed to backend.submit by this call, in order *)
  delivered : list nat;          (* ghost: values handed to the consumer by this call, in order *)
  closed : list nat;             (* ghost: trackers of this call whose callback ran _dispatch_new *)
  abandoned : bool;              (* ghost: the consumer closed / dropped the generator of this call *)
  noisy : bool                   (* ghost: a completion callback ran its dispatch section while the caller was still in _start *)
}.

Definition init : st := {|
  cid := 0; running := false; c := {| n_jobs := 2; pre := PreAll; mode := Ordered |}; N := 0; ifail := None;
  taken := 0; pre_left := None; ready := []; trk := []; jobs := []; jset := []; inflight := []; cbmid := [];
  n_disp := 0; n_comp := 0; iterating := false; aborting := false; exception := false; orig := false;
  phase := Idle; pend_out := []; want := false; submitted := []; delivered := []; closed := []; abandoned := false; noisy := false |}.

(* ------------------------------------------------------------------ helpers *)
Fixpoint set_nth {A} (n : nat) (x : A) (l : list A) : list A :=
  match l, n with
  | [], _ => []
  | _ :: t, 0 => x :: t
  | h :: t, S k => h :: set_nth k x t
  end.

Definition remove_id (x : nat) (l : list nat) : list nat := filter (fun y => negb (Nat.eqb x y)) l.
Definition mem_id (x : nat) (l : list nat) : bool := existsb (Nat.eqb x) l.

Definition get_trk (s : st) (t : nat) : option tracker := nth_error (trk s) t.
Definition status_of (s : st) (t : nat) : status :=
  match get_trk s t with Some k => tk_status k | None => Pending end.
Definition tasks_of (s : st) (t : nat) : list nat :=
  match get_trk s t with Some k => tk_tasks k | None => [] end.

(* split l into chunks of size k (k >= 1), by fuel = length l *)
Fixpoint chunks_fuel (fuel k : nat) (l : list nat) : list (list nat) :=
  match fuel with
  | 0 => []
  | S f => match l with
           | [] => []
           | _ => firstn k l :: chunks_fuel f k (skipn k l)
           end
  end.
Definition chunks (k : nat) (l : list nat) : list (list nat) := chunks_fuel (length l) (Nat.max 1 k) l.

Definition is_ordered (s : st) : bool := match mode (c s) with Ordered => true | Unordered => false end.

(* record-update helpers (explicit, to keep the model first-order and extractable) *)
Definition upd_dispatch (s : st) (taken' : nat) (pre_left' : option nat) (ready' : list (list nat)) : st :=
  {| cid := cid s; running := running s; c := c s; N := N s; ifail := ifail s;
     taken := taken'; pre_left := pre_left'; ready := ready'; trk := trk s; jobs := jobs s; jset := jset s;
     inflight := inflight s; cbmid := cbmid s; n_disp := n_disp s; n_comp := n_comp s;
     iterating := iterating s; aborting := aborting s; exception := exception s; orig := orig s;
     phase := phase s; pend_out := pend_out s; want := want s; submitted := submitted s; delivered := delivered s; closed := closed s; abandoned := abandoned s; noisy := noisy s |}.

(* _dispatch: register a tracker and submit *)
Definition do_submit (s : st) (tasks : list nat) : st :=
  let id := length (trk s) in
  let k := {| tk_cid := cid s; tk_tasks := tasks; tk_status := Pending |} in
  {| cid := cid s; running := running s; c := c s; N := N s; ifail := ifail s;
     taken := taken s; pre_left := pre_left s; ready := ready s; trk := trk s ++ [k];
     jobs := if is_ordered s then jobs s ++ [id] else jobs s;
     jset := if is_ordered s then jset s else jset s ++ [id];
     inflight := inflight s ++ [id]; cbmid := cbmid s;
     n_disp := n_disp s + length tasks; n_comp := n_comp s;
     iterating := iterating s; aborting := aborting s; exception := exception s; orig := orig s;
     phase := phase s; pend_out := pend_out s; want := want s; submitted := submitted s ++ [tasks]; delivered := delivered s; closed := closed s; abandoned := abandoned s; noisy := noisy s |}.

(* the `except Exception` branch of dispatch_one_batch: a tracker that already failed *)
Definition do_iter_error (s : st) (taken' : nat) (pre_left' : option nat) : st :=
  let id := length (trk s) in
  let k := {| tk_cid := cid s; tk_tasks := []; tk_status := Failed ErrIter |} in
  {| cid := cid s; running := running s; c := c s; N := N s; ifail := ifail s;
     taken := taken'; pre_left := pre_left'; ready := ready s; trk := trk s ++ [k];
     jobs := jobs s ++ [id];
     jset := if is_ordered s then jset s else jset s ++ [id];
     inflight := inflight s; cbmid := cbmid s;
     n_disp := n_disp s; n_comp := n_comp s;
     iterating := iterating s; aborting := true; exception := true; orig := orig s;
     phase := phase s; pend_out := pend_out s; want := want s; submitted := submitted s; delivered := delivered s; closed := closed s; abandoned := abandoned s; noisy := noisy s |}.

Definition opt_min (a : nat) (b : option nat) : nat := match b with None => a | Some x => Nat.min a x end.
Definition opt_sub (b : option nat) (k : nat) : option nat := match b with None => None | Some x => Some (x - k) end.

(* dispatch_one_batch(iterator) with batch size b; from_orig = called through dispatch_next.
   Returns the new state and the boolean the method returns. *)
Definition dispatch_one_batch (s : st) (b : nat) (from_orig : bool) : st * bool :=
  if aborting s then (s, false)
  else match ready s with
  | t :: r => (do_submit (upd_dispatch s (taken s) (pre_left s) r) t, true)
  | [] =>
    let nj := n_jobs (c s) in
    let big := b * nj in
    let lim := if from_orig then big else opt_min big (pre_left s) in
    let avail := N s - taken s in
    let calls := if lim <=? avail then lim else avail + 1 in     (* next() calls on the input *)
    match ifail s with
    | Some f =>
      if (taken s <=? f) && (f - taken s <? calls) then
        let got := f - taken s in
        (do_iter_error s f (if from_orig then pre_left s else opt_sub (pre_left s) got), true)
      else
        let k := Nat.min lim avail in
        if k =? 0 then (s, false) else
        let items := seq (taken s) k in
        let fin := if from_orig && (k <? big) then Nat.max 1 (k / (10 * nj)) else Nat.max 1 (k / nj) in
        match chunks fin items with
        | [] => (s, false)
        | t :: r =>
          (do_submit (upd_dispatch s (taken s + k) (if from_orig then pre_left s else opt_sub (pre_left s) k) r) t, true)
        end
    | None =>
      let k := Nat.min lim avail in
      if k =? 0 then (s, false) else
      let items := seq (taken s) k in
      let fin := if from_orig && (k <? big) then Nat.max 1 (k / (10 * nj)) else Nat.max 1 (k / nj) in
      match chunks fin items with
      | [] => (s, false)
      | t :: r =>
        (do_submit (upd_dispatch s (taken s + k) (if from_orig then pre_left s else opt_sub (pre_left s) k) r) t, true)
      end
    end
  end.

Definition set_flags (s : st) (iterating' orig' : bool) (phase' : phase_t) : st :=
  {| cid := cid s; running := running s; c := c s; N := N s; ifail := ifail s;
     taken := taken s; pre_left := pre_left s; ready := ready s; trk := trk s; jobs := jobs s; jset := jset s;
     inflight := inflight s; cbmid := cbmid s; n_disp := n_disp s; n_comp := n_comp s;
     iterating := iterating'; aborting := aborting s; exception := exception s; orig := orig';
     phase := phase'; pend_out := pend_out s; want := want s; submitted := submitted s; delivered := delivered s; closed := closed s; abandoned := abandoned s; noisy := noisy s |}.

(* --------------------------------------------------------------- ECall *)
Definition pre_amount (p : pre_t) : option nat := match p with PreAll => None | PreN n => Some n end.

Definition do_call (s : st) (cf : cfg) (n : nat) (f : option nat) : st :=
  {| cid := S (cid s); running := true; c := cf; N := n; ifail := f;
     taken := 0; pre_left := pre_amount (pre cf); ready := []; trk := trk s; jobs := []; jset := [];
     inflight := inflight s; cbmid := cbmid s; n_disp := 0; n_comp := 0;
     iterating := false; aborting := false; exception := false;
     orig := match pre cf with PreAll => false | PreN _ => true end;
     phase := StartFirst; pend_out := []; want := false; submitted := []; delivered := []; closed := []; abandoned := false; noisy := false |}.

(* --------------------------------------------------------------- callbacks *)
Definition set_status (s : st) (t : nat) (x : status) : list tracker :=
  match get_trk s t with
  | Some k => set_nth t {| tk_cid := tk_cid k; tk_tasks := tk_tasks k; tk_status := x |} (trk s)
  | None => trk s
  end.

(* first locked section of BatchCompletionCallBack.__call__ ; o = None: success *)
Definition cb_start (s : st) (t : nat) (o : option err) : st :=
  match get_trk s t with
  | None => s
  | Some k =>
    if negb (mem_id t (inflight s)) then s else   (* backend contract: one callback per submitted batch *)
    let infl := remove_id t (inflight s) in
    let stale := negb (Nat.eqb (tk_cid k) (cid s)) in
    if stale || aborting s then
      {| cid := cid s; running := running s; c := c s; N := N s; ifail := ifail s;
         taken := taken s; pre_left := pre_left s; ready := ready s; trk := trk s; jobs := jobs s; jset := jset s;
         inflight := infl; cbmid := cbmid s; n_disp := n_disp s; n_comp := n_comp s;
         iterating := iterating s; aborting := aborting s; exception := exception s; orig := orig s;
         phase := phase s; pend_out := pend_out s; want := want s; submitted := submitted s; delivered := delivered s; closed := closed s; abandoned := abandoned s; noisy := noisy s |}
    else
      let already := match tk_status k with Pending => false | _ => true end in
      let newst := match o with None => Done | Some e => Failed e end in
      let failed := match o with None => false | Some _ => true end in
      {| cid := cid s; running := running s; c := c s; N := N s; ifail := ifail s;
         taken := taken s; pre_left := pre_left s; ready := ready s;
         trk := if already then trk s else set_status s t newst;
         jobs := if already || is_ordered s then jobs s else jobs s ++ [t];
         jset := jset s;
         inflight := infl; cbmid := if failed then cbmid s else cbmid s ++ [t];
         n_disp := n_disp s; n_comp := n_comp s;
         iterating := iterating s;
         aborting := if already then aborting s else (aborting s || failed);
         exception := if already then exception s else (exception s || failed);
         orig := orig s;
         phase := phase s; pend_out := pend_out s; want := want s; submitted := submitted s; delivered := delivered s; closed := closed s; abandoned := abandoned s; noisy := noisy s |}
  end.

Definition add_comp (s : st) (k : nat) (cbmid' : list nat) : st :=
  {| cid := cid s; running := running s; c := c s; N := N s; ifail := ifail s;
     taken := taken s; pre_left := pre_left s; ready := ready s; trk := trk s; jobs := jobs s; jset := jset s;
     inflight := inflight s; cbmid := cbmid'; n_disp := n_disp s; n_comp := n_comp s + k;
     iterating := iterating s; aborting := aborting s; exception := exception s; orig := orig s;
     phase := phase s; pend_out := pend_out s; want := want s; submitted := submitted s; delivered := delivered s; closed := closed s; abandoned := abandoned s; noisy := noisy s |}.

Definition mark_closed (s : st) (t : nat) : st :=
  {| cid := cid s; running := running s; c := c s; N := N s; ifail := ifail s;
     taken := taken s; pre_left := pre_left s; ready := ready s; trk := trk s; jobs := jobs s; jset := jset s;
     inflight := inflight s; cbmid := cbmid s; n_disp := n_disp s; n_comp := n_comp s;
     iterating := iterating s; aborting := aborting s; exception := exception s; orig := orig s;
     phase := phase s; pend_out := pend_out s; want := want s; submitted := submitted s;
     delivered := delivered s; closed := closed s ++ [t]; abandoned := abandoned s; noisy := noisy s || match phase s with StartFirst | StartLoop => true | _ => false end |}.

(* second locked section: _dispatch_new.  [guard_cid] = the call-id re-check of the callback
   (true on the current tree, see DESIGN.md F17) *)
Definition cb_finish (guard_cid : bool) (s : st) (t : nat) (b : nat) : st :=
  match get_trk s t with
  | None => s
  | Some k =>
    if negb (mem_id t (cbmid s)) then s else
    let mid := remove_id t (cbmid s) in
    if guard_cid && negb (Nat.eqb (tk_cid k) (cid s)) then add_comp s 0 mid else
    let s1 := mark_closed (add_comp s (length (tk_tasks k)) mid) t in
    if orig s1 then
      let '(s2, r) := dispatch_one_batch s1 b true in
      if r then s2 else set_flags s2 false false (phase s2)
    else s1
  end.

(* --------------------------------------------------------------- retrieval *)
Definition first_failed (s : st) : option err :=
  fold_right (fun t acc => match status_of s t with Failed e => Some e | _ => acc end) None (jobs s).

(* the `finally` block of _get_outputs *)
Definition finalize (s : st) (phase' : phase_t) (exc : bool) (abort : bool) : st :=
  {| cid := cid s; running := false; c := c s; N := N s; ifail := ifail s;
     taken := taken s; pre_left := pre_left s; ready := ready s; trk := trk s; jobs := []; jset := [];
     inflight := inflight s; cbmid := cbmid s; n_disp := n_disp s; n_comp := n_comp s;
     iterating := iterating s; aborting := aborting s || abort; exception := exc; orig := orig s;
     phase := phase'; pend_out := []; want := false; submitted := submitted s; delivered := delivered s; closed := closed s; abandoned := abandoned s; noisy := noisy s |}.

Definition set_out (s : st) (jobs' jset' : list nat) (pend' : list nat) (want' : bool) (phase' : phase_t) : st :=
  {| cid := cid s; running := running s; c := c s; N := N s; ifail := ifail s;
     taken := taken s; pre_left := pre_left s; ready := ready s; trk := trk s; jobs := jobs'; jset := jset';
     inflight := inflight s; cbmid := cbmid s; n_disp := n_disp s; n_comp := n_comp s;
     iterating := iterating s; aborting := aborting s; exception := exception s; orig := orig s;
     phase := phase'; pend_out := pend'; want := want'; submitted := submitted s; delivered := delivered s; closed := closed s; abandoned := abandoned s; noisy := noisy s |}.

Definition deliver (s : st) (v : nat) : st :=
  {| cid := cid s; running := running s; c := c s; N := N s; ifail := ifail s;
     taken := taken s; pre_left := pre_left s; ready := ready s; trk := trk s; jobs := jobs s; jset := jset s;
     inflight := inflight s; cbmid := cbmid s; n_disp := n_disp s; n_comp := n_comp s;
     iterating := iterating s; aborting := aborting s; exception := exception s; orig := orig s;
     phase := phase s; pend_out := pend_out s; want := want s; submitted := submitted s;
     delivered := delivered s ++ [v]; closed := closed s; abandoned := abandoned s; noisy := noisy s |}.

(* One attempt of the consumer to obtain the next value (it has called next()).
   None = still waiting (the retrieval loop keeps polling). *)
Fixpoint advance (fuel : nat) (s : st) : st * option obs :=
  match fuel with
  | 0 => (s, None)
  | S fuel' =>
    match pend_out s with
    | v :: r => (deliver (set_out s (jobs s) (jset s) r false (phase s)) v, Some (Val v))
    | [] =>
      match phase s with
      | Retrieving =>
        if aborting s || iterating s || (n_comp s <? n_disp s) then
          if aborting s then
            match first_failed s with
            | Some e => (finalize s Finished true true, Some (Raised e))
            | None => let rem := if exception s then [] else jobs s in
                      advance fuel' (finalize s (Draining rem) (exception s) false)
            end
          else
            match jobs s with
            | [] => (s, None)
            | j :: js =>
              match status_of s j with
              | Pending => (s, None)
              | Done => advance fuel' (set_out s js (remove_id j (jset s)) (tasks_of s j) true Retrieving)
              | Failed e => (finalize (set_out s js (remove_id j (jset s)) [] true Retrieving) Finished true true,
                             Some (Raised e))
              end
            end
        else
          let rem := if exception s then [] else jobs s in
          advance fuel' (finalize s (Draining rem) (exception s) false)
      | Draining rem =>
        match rem with
        | [] => (set_out s (jobs s) (jset s) [] false Finished, Some Stop)
        | j :: js =>
          match status_of s j with
          | Done => advance fuel' (set_out s (jobs s) (jset s) (tasks_of s j) true (Draining js))
          | Failed e => (set_out s (jobs s) (jset s) [] false Finished, Some (Raised e))
          | Pending => (set_out s (jobs s) (jset s) [] false Finished, Some (Raised ErrAttr))
          end
        end
      | Finished | Idle => (s, Some Stop)
      | StartFirst | StartLoop => (s, None)
      end
    end
  end.

Definition adv_fuel (s : st) : nat := 4 + length (jobs s) + match phase s with Draining r => length r | _ => 0 end.

Definition try_advance (s : st) : st * option obs :=
  if want s then advance (adv_fuel s) s else (s, None).

Definition set_want (s : st) : st := set_out s (jobs s) (jset s) (pend_out s) true (phase s).

(* --------------------------------------------------------------- events *)
Inductive ev :=
| ECall (cf : cfg) (n : nat) (f : option nat)
| EDispatch (b : nat)
| ECbStart (t : nat) (o : option err)
| ECbFinish (t : nat) (b : nat)
| EPull
| EClose
| ETimeout
| ERefuse (b : nat).

(* get_status registers TimeoutError() on a job that stayed pending for longer than `timeout` *)
Definition do_timeout (s : st) (j : nat) : st :=
  {| cid := cid s; running := running s; c := c s; N := N s; ifail := ifail s;
     taken := taken s; pre_left := pre_left s; ready := ready s;
     trk := set_status s j (Failed ErrTimeout);
     jobs := if is_ordered s then jobs s else jobs s ++ [j]; jset := jset s;
     inflight := inflight s; cbmid := cbmid s; n_disp := n_disp s; n_comp := n_comp s;
     iterating := iterating s; aborting := true; exception := true; orig := orig s;
     phase := phase s; pend_out := pend_out s; want := want s; submitted := submitted s;
     delivered := delivered s; closed := closed s; abandoned := abandoned s; noisy := noisy s |}.

Definition abandon (s : st) : st :=
  {| cid := cid s; running := running s; c := c s; N := N s; ifail := ifail s;
     taken := taken s; pre_left := pre_left s; ready := ready s; trk := trk s; jobs := jobs s; jset := jset s;
     inflight := inflight s; cbmid := cbmid s; n_disp := n_disp s; n_comp := n_comp s;
     iterating := iterating s; aborting := aborting s; exception := exception s; orig := orig s;
     phase := phase s; pend_out := pend_out s; want := want s; submitted := submitted s;
     delivered := delivered s; closed := closed s; abandoned := true; noisy := noisy s |}.

(* head job used for the timeout control *)
Definition timeout_target (s : st) : option nat :=
  match phase s with
  | Retrieving =>
    if is_ordered s then
      match jobs s with j :: _ => match status_of s j with Pending => Some j | _ => None end | [] => None end
    else match jobs s with [] => hd_error (jset s) | _ => None end
  | _ => None
  end.

(* _start is left: `if pre_dispatch == "all": self._iterating = False`, then the first yield *)
Definition end_start (s : st) : st :=
  set_flags s (match pre (c s) with PreAll => false | PreN _ => iterating s end) (orig s) Retrieving.

Definition step_raw (guard_cid : bool) (s : st) (e : ev) : st * option obs :=
  match e with
  | ECall cf n f =>
    if running s then (s, Some (Raised ErrRuntime))
    else match phase s with
         | Idle | Finished => (do_call s cf n f, None)
         | _ => (s, None)               (* not generated: previous generator still draining *)
         end
  | EDispatch b =>
    (* The harness releases the caller thread at its scheduling point inside
       dispatch_one_batch (after the unlocked abort check, before the lock).  The event is the
       locked body of that call, the return into _start, and the unlocked abort check of the
       next dispatch_one_batch, which ends _start when the abort flag is set. *)
    match phase s with
    | StartFirst =>
      let '(s1, r) := dispatch_one_batch s b false in
      let s2 := set_flags s1 (if r then orig s1 else iterating s1) (orig s1) StartLoop in
      (if aborting s2 then end_start s2 else s2, None)
    | StartLoop =>
      let '(s1, r) := dispatch_one_batch s b false in
      if r then (if aborting s1 then end_start s1 else s1, None)
      else (end_start s1, None)
    | _ => (s, None)
    end
  | ECbStart t o => (cb_start s t o, None)
  | ECbFinish t b => (cb_finish guard_cid s t b, None)
  | EPull =>
    match phase s with
    | StartFirst | StartLoop => (s, None)
    | _ => (set_want s, None)
    end
  | EClose =>
    match phase s with
    | Retrieving => (abandon (finalize s Finished true true), Some Stop)
    | Draining _ => (abandon (set_out s (jobs s) (jset s) [] false Finished), Some Stop)
    | _ => (s, Some Stop)
    end
  | ERefuse b =>
    (* as EDispatch, but backend.submit raises for the batch (a broken executor refusing work): the exception leaves
       dispatch_one_batch and _start, the handler of _get_outputs sets the flags, aborts, resets and re-raises in the
       caller; the tracker of the refused batch was registered before submit() and stays behind.  When nothing is
       handed to the backend -- nothing left to dispatch, or the input raised while it was sliced (an error tracker
       is registered without any submit, and the abort flag is up) -- the event is an ordinary dispatch. *)
    match phase s with
    | StartFirst =>
      let '(s1, r) := dispatch_one_batch s b false in
      if r && negb (aborting s1) then (finalize s1 Finished true true, Some (Raised ErrBackend))
      else
        let s2 := set_flags s1 (if r then orig s1 else iterating s1) (orig s1) StartLoop in
        (if aborting s2 then end_start s2 else s2, None)
    | StartLoop =>
      let '(s1, r) := dispatch_one_batch s b false in
      if r && negb (aborting s1) then (finalize s1 Finished true true, Some (Raised ErrBackend))
      else if r then (if aborting s1 then end_start s1 else s1, None)
      else (end_start s1, None)
    | _ => (s, None)
    end
  | ETimeout =>
    if want s then
      match timeout_target s with
      | Some j =>
        match status_of s j with
        | Pending => (do_timeout s j, None)
        | _ => (s, None)
        end
      | None => (s, None)
      end
    else (s, None)
  end.

(* every event is followed by the consumer's attempt to make progress if it is waiting *)
Definition step (guard_cid : bool) (s : st) (e : ev) : st * list obs :=
  let '(s1, o1) := step_raw guard_cid s e in
  match o1 with
  | Some o => (s1, [o])
  | None => let '(s2, o2) := try_advance s1 in
            (s2, match o2 with Some o => [o] | None => [] end)
  end.

Fixpoint run_events (guard_cid : bool) (s : st) (es : list ev) : st * list (list obs) :=
  match es with
  | [] => (s, [])
  | e :: r => let '(s1, o) := step guard_cid s e in
              let '(s2, os) := run_events guard_cid s1 r in (s2, o :: os)
  end.

(* ---------------------------------------------------------- sequential path (n_jobs = 1) *)
(* _get_sequential_output: tasks run one by one in the caller; tfail i = task i raises *)
Fixpoint seq_run (tfail : nat -> bool) (tasks : list nat) : list nat * option err :=
  match tasks with
  | [] => ([], None)
  | i :: r => if tfail i then ([], Some (ErrTask i))
              else let '(o, e) := seq_run tfail r in (i :: o, e)
  end.
