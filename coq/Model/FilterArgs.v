(* Model M2 -- joblib.func_inspect.filter_args, and Python's own parameter binding as its
   specification.  Executable definitions only (proofs: Proofs/FilterArgs*.v).

   Exported vocabulary (used by C07 and by the Memory models of C02/C06):
     name value kind param sig call argval key binding adict
     wf_sig wf_call py_bind canon filter_args_model filter_args_opaque in_fragment

   Names and values are abstract integers ([Z]).  The harness maps Python identifiers to
   integers so that the order of the integers is the order of the strings
   ([sorted(kwargs.items())] only depends on that order). *)
From Coq Require Import ZArith List Bool.
Require Import JV.Base.PyPrelude.
Import ListNotations.
Open Scope Z_scope.

Definition name := Z.
Definition value := Z.

(* inspect.Parameter.kind *)
Inductive kind := PosOnly | PosOrKw | VarPos | KwOnly | VarKw.

Record param := mkParam { pkind : kind; pname : name; pdefault : option value }.
Definition sig := list param.

(* the call  f( *cpos, **ckw )  *)
Record call := mkCall { cpos : list value; ckw : list (name * value) }.

(* what a parameter is bound to: one value, the *args tuple, the **kwargs dict *)
Inductive argval :=
| VOne (v : value)
| VTuple (l : list value)
| VDict (d : list (name * value)).

(* keys of the dict returned by filter_args: a parameter name, '*' or '**'.
   [KStar]/[KStarStar] are the two keys the code writes itself.  A KEYWORD ARGUMENT may be spelled '*' or '**'
   too (f(1, **{'*': 5}) is legal when f has **kwargs): it is an ordinary [name] (the harness gives these
   spellings their own integer codes) and can only ever appear INSIDE the [VDict] stored under [KStarStar],
   never as a top-level key: the code inserts '**' and '*' AFTER the loop that tests `arg_name in arg_dict`,
   so at that point arg_dict holds parameter names only, and a parameter cannot be named '*'.  Hence
   [KName n] never has to equal [KStar], no information is lost by the unchanged code, and an ignore item
   '*' / '**' always denotes [KStar] / [KStarStar]. *)
Inductive key := KName (n : name) | KStar | KStarStar.

Definition binding := list (name * argval).   (* BoundArguments.arguments, in parameter order *)
Definition adict := list (key * argval).      (* a Python dict in insertion order *)

(* ------------------------------------------------------------------ small helpers *)
Definition kind_rank (k : kind) : nat :=
  match k with PosOnly => 1 | PosOrKw => 2 | VarPos => 3 | KwOnly => 4 | VarKw => 5 end.
Definition kind_eqb (a b : kind) : bool := Nat.eqb (kind_rank a) (kind_rank b).

Definition is_var (k : kind) : bool := match k with VarPos | VarKw => true | _ => false end.
Definition is_positional (k : kind) : bool := match k with PosOnly | PosOrKw => true | _ => false end.
Definition is_keywordable (k : kind) : bool := match k with PosOrKw | KwOnly => true | _ => false end.
Definition is_named (k : kind) : bool := negb (is_var k).

Definition has_default (p : param) : bool := match pdefault p with Some _ => true | None => false end.
Definition has_kind (k : kind) (s : sig) : bool := existsb (fun p => kind_eqb (pkind p) k) s.

Definition name_mem (n : name) (l : list name) : bool := existsb (Z.eqb n) l.

Fixpoint kw_lookup (n : name) (kw : list (name * value)) : option value :=
  match kw with
  | [] => None
  | (k, v) :: t => if k =? n then Some v else kw_lookup n t
  end.
Definition kw_mem (n : name) (kw : list (name * value)) : bool :=
  match kw_lookup n kw with Some _ => true | None => false end.

Fixpoint nodupb (l : list name) : bool :=
  match l with [] => true | x :: t => negb (name_mem x t) && nodupb t end.

(* ------------------------------------------------------------ well-formed signatures *)
(* Python's rules for `def`: kinds in the order  positional-only, positional-or-keyword,
   *args, keyword-only, **kwargs ; at most one *args and one **kwargs, neither with a
   default ; no positional parameter without default after one with default ; distinct names *)
Fixpoint kinds_ordered (prev : nat) (s : sig) : bool :=
  match s with
  | [] => true
  | p :: t =>
      let r := kind_rank (pkind p) in
      (if is_var (pkind p) then Nat.ltb prev r else Nat.leb prev r) && kinds_ordered r t
  end.

Fixpoint defaults_wf (seen : bool) (s : sig) : bool :=
  match s with
  | [] => true
  | p :: t =>
      if is_var (pkind p) then negb (has_default p) && defaults_wf seen t
      else if is_positional (pkind p)
           then (if seen then has_default p else true) && defaults_wf (seen || has_default p) t
           else defaults_wf seen t
  end.

Definition wf_sigb (s : sig) : bool :=
  kinds_ordered 0 s && defaults_wf false s && nodupb (map pname s).
Definition wf_sig (s : sig) : Prop := wf_sigb s = true.

(* keyword arguments of a call have distinct names *)
Definition wf_callb (c : call) : bool := nodupb (map fst (ckw c)).
Definition wf_call (c : call) : Prop := wf_callb c = true.

(* ------------------------------------------------- the specification: Python's binding *)
Definition keywordable_names (s : sig) : list name :=
  map pname (filter (fun p => is_keywordable (pkind p)) s).

(* keyword arguments that name no keywordable parameter: they go to **kwargs *)
Definition surplus_kw (s : sig) (kw : list (name * value)) : list (name * value) :=
  filter (fun kv => negb (name_mem (fst kv) (keywordable_names s))) kw.

Definition by_keyword (kw : list (name * value)) (p : param) : option argval :=
  match kw_lookup (pname p) kw with
  | Some v => Some (VOne v)
  | None => match pdefault p with Some d => Some (VOne d) | None => None end   (* missing argument *)
  end.

Definition bcons (n : name) (v : option argval) (rest : option binding) : option binding :=
  match v, rest with Some a, Some b => Some ((n, a) :: b) | _, _ => None end.

(* walk the parameters left to right; [pos] = positional arguments not yet consumed *)
Fixpoint bind_go (kw surplus : list (name * value)) (ps : sig) (pos : list value) : option binding :=
  match ps with
  | [] => match pos with [] => Some [] | _ :: _ => None end           (* too many positional arguments *)
  | p :: ps' =>
      match pkind p with
      | PosOnly =>
          match pos with
          | v :: pos' => bcons (pname p) (Some (VOne v)) (bind_go kw surplus ps' pos')
          | [] => bcons (pname p) (option_map VOne (pdefault p)) (bind_go kw surplus ps' [])
          end
      | PosOrKw =>
          match pos with
          | v :: pos' => if kw_mem (pname p) kw then None                  (* multiple values *)
                         else bcons (pname p) (Some (VOne v)) (bind_go kw surplus ps' pos')
          | [] => bcons (pname p) (by_keyword kw p) (bind_go kw surplus ps' [])
          end
      | VarPos => bcons (pname p) (Some (VTuple pos)) (bind_go kw surplus ps' [])
      | KwOnly =>
          match pos with
          | _ :: _ => None                                                 (* too many positional *)
          | [] => bcons (pname p) (by_keyword kw p) (bind_go kw surplus ps' [])
          end
      | VarKw =>
          match pos with
          | _ :: _ => None
          | [] => bcons (pname p) (Some (VDict surplus)) (bind_go kw surplus ps' [])
          end
      end
  end.

(* None = Python raises TypeError for this call *)
Definition py_bind (s : sig) (c : call) : option binding :=
  let sur := surplus_kw s (ckw c) in
  if has_kind VarKw s || is_nil sur            (* else: unexpected keyword argument *)
  then bind_go (ckw c) sur s (cpos c)
  else None.

(* canonical dict of a binding: every named parameter under its name, *args under '*',
   **kwargs (sorted by name) under '**'.  Entry order = the order filter_args inserts them;
   as a Python dict the order is immaterial. *)
Definition canon_named (pb : param * (name * argval)) : adict :=
  if is_named (pkind (fst pb)) then [(KName (pname (fst pb)), snd (snd pb))] else [].
Definition canon_kw (pb : param * (name * argval)) : adict :=
  match pkind (fst pb), snd (snd pb) with
  | VarKw, VDict d => [(KStarStar, VDict (sort_by fst d))]
  | _, _ => []
  end.
Definition canon_star (pb : param * (name * argval)) : adict :=
  match pkind (fst pb) with VarPos => [(KStar, snd (snd pb))] | _ => [] end.

Definition canon (s : sig) (b : binding) : adict :=
  let z := combine s b in
  flat_map canon_named z ++ flat_map canon_kw z ++ flat_map canon_star z.

(* ------------------------------------------------------ Python list / dict operations *)
(* l[i] with Python's negative indices *)
Definition py_index {A} (l : list A) (i : Z) : result A :=
  let n := len l in
  let j := if i <? 0 then n + i else i in
  if (j <? 0) || (n <=? j) then Raise IndexError
  else match nth_error l (Z.to_nat j) with Some a => Ok a | None => Raise IndexError end.

(* l[i:] *)
Definition py_slice_from {A} (l : list A) (i : Z) : list A :=
  let n := len l in
  let j := if i <? 0 then Z.max 0 (n + i) else i in
  skipn (Z.to_nat j) l.

Definition key_eqb (a b : key) : bool :=
  match a, b with
  | KName x, KName y => x =? y
  | KStar, KStar => true
  | KStarStar, KStarStar => true
  | _, _ => false
  end.

Fixpoint dget (k : key) (d : adict) : option argval :=
  match d with [] => None | (k', v) :: t => if key_eqb k' k then Some v else dget k t end.
Definition dmem (k : key) (d : adict) : bool :=
  match dget k d with Some _ => true | None => false end.
(* d[k] = v : an existing key keeps its place *)
Fixpoint dset (k : key) (v : argval) (d : adict) : adict :=
  match d with
  | [] => [(k, v)]
  | (k', v') :: t => if key_eqb k' k then (k', v) :: t else (k', v') :: dset k v t
  end.
Fixpoint dpop (k : key) (d : adict) : adict :=
  match d with [] => [] | (k', v') :: t => if key_eqb k' k then t else (k', v') :: dpop k t end.
Definition key_mem (k : key) (l : list key) : bool := existsb (key_eqb k) l.

(* --------------------------------------------- the code: joblib.func_inspect.filter_args *)
(*  for param in arg_sig.parameters.values():
        if   param.kind is POSITIONAL_OR_KEYWORD: arg_names.append(param.name)
        elif param.kind is KEYWORD_ONLY:          arg_names.append(..); arg_kwonlyargs.append(..)
        elif param.kind is VAR_POSITIONAL:        arg_varargs = param.name
        elif param.kind is VAR_KEYWORD:           arg_varkw = param.name
        if param.default is not param.empty:      arg_defaults.append(param.default)
    A POSITIONAL_ONLY parameter matches no branch: its name is dropped, its default is kept. *)
Record scan := mkScan {
  sc_names : list name; sc_defaults : list value; sc_kwonly : list name;
  sc_varargs : option name; sc_varkw : option name }.

Definition scan_param (st : scan) (p : param) : scan :=
  let st1 :=
    match pkind p with
    | PosOrKw => mkScan (sc_names st ++ [pname p]) (sc_defaults st) (sc_kwonly st) (sc_varargs st) (sc_varkw st)
    | KwOnly => mkScan (sc_names st ++ [pname p]) (sc_defaults st) (sc_kwonly st ++ [pname p])
                       (sc_varargs st) (sc_varkw st)
    | VarPos => mkScan (sc_names st) (sc_defaults st) (sc_kwonly st) (Some (pname p)) (sc_varkw st)
    | VarKw => mkScan (sc_names st) (sc_defaults st) (sc_kwonly st) (sc_varargs st) (Some (pname p))
    | PosOnly => st
    end in
  match pdefault p with
  | Some d => mkScan (sc_names st1) (sc_defaults st1 ++ [d]) (sc_kwonly st1) (sc_varargs st1) (sc_varkw st1)
  | None => st1
  end.

Definition scan_sig (s : sig) : scan := fold_left scan_param s (mkScan [] [] [] None None).

(*  for arg_position, arg_name in enumerate(arg_names):
        if arg_position < len(args):
            if arg_name not in arg_kwonlyargs: arg_dict[arg_name] = args[arg_position]
            else: raise ValueError(...)
        else:
            position = arg_position - len(arg_names)
            if arg_name in kwargs: arg_dict[arg_name] = kwargs[arg_name]
            else:
                try: arg_dict[arg_name] = arg_defaults[position]
                except (IndexError, KeyError) as e: raise ValueError(...) from e            *)
Definition named_step (args : list value) (kwargs : list (name * value)) (kwonly : list name)
    (defaults : list value) (nlen : Z) (arg_position : Z) (arg_name : name) (d : adict) : result adict :=
  if arg_position <? len args then
    if negb (name_mem arg_name kwonly)
    then bind (py_index args arg_position) (fun v => Ok (dset (KName arg_name) (VOne v) d))
    else Raise ValueError
  else
    let position := arg_position - nlen in
    match kw_lookup arg_name kwargs with
    | Some v => Ok (dset (KName arg_name) (VOne v) d)
    | None =>
        match py_index defaults position with
        | Ok v => Ok (dset (KName arg_name) (VOne v) d)
        | Raise IndexError => Raise ValueError
        | Raise KeyError => Raise ValueError
        | Raise e => Raise e
        end
    end.

Fixpoint named_loop (args : list value) (kwargs : list (name * value)) (kwonly : list name)
    (defaults : list value) (nlen : Z) (names : list name) (arg_position : Z) (d : adict) : result adict :=
  match names with
  | [] => Ok d
  | nm :: t =>
      bind (named_step args kwargs kwonly defaults nlen arg_position nm d)
           (named_loop args kwargs kwonly defaults nlen t (arg_position + 1))
  end.

(*  varkwargs = dict()
    for arg_name, arg_value in sorted(kwargs.items()):
        if arg_name in arg_dict:       arg_dict[arg_name] = arg_value
        elif arg_varkw is not None:    varkwargs[arg_name] = arg_value
        else: raise TypeError(...)                                                         *)
Fixpoint kw_loop (varkw : option name) (items : list (name * value)) (d : adict)
    (varkwargs : list (name * value)) : result (adict * list (name * value)) :=
  match items with
  | [] => Ok (d, varkwargs)
  | (k, v) :: t =>
      if dmem (KName k) d then kw_loop varkw t (dset (KName k) (VOne v) d) varkwargs
      else match varkw with
           | Some _ => kw_loop varkw t d (varkwargs ++ [(k, v)])
           | None => Raise TypeError
           end
  end.

(*  for item in ignore_lst:
        if item in arg_dict: arg_dict.pop(item)
        else: raise ValueError(...)                                                        *)
Fixpoint ignore_loop (ign : list key) (d : adict) : result adict :=
  match ign with
  | [] => Ok d
  | k :: t => if dmem k d then ignore_loop t (dpop k d) else Raise ValueError
  end.

(* [s] is inspect.signature(func).  For a bound method it does not contain `self`;
   [meth = Some (self_name, self_value)] then: the code prepends func.__self__ to args and the
   first parameter name of func.__func__ to arg_names. *)
Definition filter_args_model (s : sig) (ign : list key) (meth : option (name * value)) (c : call)
  : result adict :=
  let sc := scan_sig s in
  let kwargs := ckw c in
  let args := match meth with Some (_, sv) => sv :: cpos c | None => cpos c end in
  let arg_names := match meth with Some (sn, _) => sn :: sc_names sc | None => sc_names sc end in
  bind (named_loop args kwargs (sc_kwonly sc) (sc_defaults sc) (len arg_names) arg_names 0 [])
    (fun d1 =>
       let arg_position := len arg_names - 1 in           (* -1 when the loop body never ran *)
       bind (kw_loop (sc_varkw sc) (sort_by fst kwargs) d1 [])
         (fun d2vk =>
            let d3 := match sc_varkw sc with
                      | Some _ => dset KStarStar (VDict (snd d2vk)) (fst d2vk)
                      | None => fst d2vk
                      end in
            let d4 := match sc_varargs sc with
                      | Some _ => dset KStar (VTuple (py_slice_from args (arg_position + 1))) d3
                      | None => d3
                      end in
            ignore_loop ign d4)).

(* functools.partial objects and other callables that are neither function nor method:
   `return {"*": args, "**": kwargs}` (the ignore list is not applied) *)
Definition filter_args_opaque (c : call) : adict :=
  [(KStar, VTuple (cpos c)); (KStarStar, VDict (ckw c))].

(* which callables take that branch: `if not inspect.ismethod(func) and not inspect.isfunction(func)`.
   Builtin functions and bound builtin methods (len, [].count), classes, partial objects and callable instances
   are neither -> fallback; Python functions (also functools.wraps wrappers) and bound Python methods are walked. *)
Definition takes_fallback (is_method is_function : bool) : bool := negb is_method && negb is_function.

(* ------------------------------------------------- the fragment in which the code is right *)
(* [nps] = the keywordable parameters not yet visited, [npos] = positional arguments left for
   them.  A defaulted parameter that the call omits must be followed by defaulted parameters only
   (the code finds its default by counting from the END of the merged defaults list). *)
Fixpoint defaults_reachable (kw : list (name * value)) (nps : list param) (npos : nat) : bool :=
  match nps with
  | [] => true
  | p :: t =>
      ((Nat.ltb 0 npos) || kw_mem (pname p) kw || negb (has_default p) || forallb has_default t)
      && defaults_reachable kw t (Nat.pred npos)
  end.

Definition count_kind (k : kind) (s : sig) : nat :=
  length (filter (fun p => kind_eqb (pkind p) k) s).

(* no positional-only parameter; *args together with keyword-only parameters only when no
   surplus positional is passed; omitted parameters are followed by defaulted ones only *)
Definition in_fragment (s : sig) (c : call) : bool :=
  negb (has_kind PosOnly s)
  && (negb (has_kind VarPos s && has_kind KwOnly s) || Nat.leb (length (cpos c)) (count_kind PosOrKw s))
  && defaults_reachable (ckw c) (filter (fun p => is_keywordable (pkind p)) s) (length (cpos c)).

(* the same, for every call: a property of the signature alone *)
Fixpoint defaults_suffix (nps : list param) : bool :=
  match nps with
  | [] => true
  | p :: t => (if has_default p then forallb has_default t else true) && defaults_suffix t
  end.

Definition sig_in_fragment (s : sig) : bool :=
  negb (has_kind PosOnly s)
  && negb (has_kind VarPos s && has_kind KwOnly s)
  && defaults_suffix (filter (fun p => is_keywordable (pkind p)) s).
