(* M3 -- model of joblib.hashing.Hasher (joblib/hashing.py) on top of CPython's pure-Python
   pickle._Pickler, protocol 3.  Executable definitions only; proofs are in Proofs/HashEnc*.v.

   Exported names (used by the Memory models for C02/C06):
     value          the universe of hashed Python values
     enc_ops        memo -> value -> option (list op * memo)     (Pickler.save)
     enc_top        value -> option (list byte)                  (Hasher.dump: the bytes fed to md5/sha1)
     digest_input   = enc_top
     hash_md5       value -> option (list byte)                  (joblib.hash(v): 32 hex ASCII codes)

   [None] = the call raises (TypeError escaping from the except-handler of the mixed-kind fallback).

   Partiality of the real code.  [enc] is a total function on [value] (structural recursion); the
   pure-Python pickler recurses on the Python stack (about four frames per nesting level), so for
   values nested a few hundred levels deep (about 250 at the default recursion limit, fewer from a deep
   call stack) Hasher.dump raises RecursionError and joblib.hash returns NO digest.  Every theorem about
   [enc] / [enc_top] speaks about the values for which dump terminates normally: there the bytes are
   [enc_top v], whatever the recursion limit and the depth of the calling stack (checked by
   harness/impl/c08_deep_impl.py on nestings of 50..2000 levels; a RecursionError is accepted, a digest
   that differs from the one computed with room for the recursion is a violation).

   Conventions.  byte = Z in [0,256).  VStr carries the UTF-8 ('surrogatepass') bytes of the str;
   str comparison is modelled as comparison of these bytes (UTF-8 preserves code-point order; trusted,
   sampled by the check).  VFloat carries the IEEE-754 binary64 bit pattern as a Z in [0,2^64).
   VDict/VSet/VFrozenSet carry their items in ITERATION order (which depends on insertion order and,
   for str/bytes elements, on PYTHONHASHSEED): order-insensitivity is a theorem, not a convention.
   Values are trees: no aliasing of memoised sub-objects (tuples, lists, dicts), cf. the property. *)
From Coq Require Import ZArith List Bool.
Import ListNotations.
Open Scope Z_scope.

Definition byte := Z.

Inductive value :=
| VNone
| VBool (b : bool)
| VInt (z : Z)
| VFloat (bits : Z)
| VStr (utf8 : list byte)
| VBytes (bs : list byte)
| VTuple (l : list value)
| VList (l : list value)
| VDict (items : list (value * value))
| VSet (l : list value)
| VFrozenSet (l : list value).

(* ------------------------------------------------------------------ Python numbers, == and < *)

Inductive num := NNaN | NNegInf | NPosInf | NFin (m e : Z).   (* NFin m e = m * 2^e *)

Definition float_num (bits : Z) : num :=
  let s := bits / 9223372036854775808 in
  let ex := (bits / 4503599627370496) mod 2048 in
  let fr := bits mod 4503599627370496 in
  let sg := fun x : Z => if s =? 0 then x else - x in
  if ex =? 2047 then (if fr =? 0 then (if s =? 0 then NPosInf else NNegInf) else NNaN)
  else if ex =? 0 then NFin (sg fr) (-1074)
  else NFin (sg (fr + 4503599627370496)) (ex - 1075).

Definition fin_cmp (m1 e1 m2 e2 : Z) : comparison :=
  let e := Z.min e1 e2 in (m1 * 2 ^ (e1 - e)) ?= (m2 * 2 ^ (e2 - e)).

Definition num_ltb (a b : num) : bool :=
  match a, b with
  | NNaN, _ | _, NNaN => false
  | NNegInf, NNegInf => false
  | NNegInf, _ => true
  | _, NNegInf => false
  | NPosInf, _ => false
  | _, NPosInf => true
  | NFin m1 e1, NFin m2 e2 => match fin_cmp m1 e1 m2 e2 with Lt => true | _ => false end
  end.

Definition num_eqb (a b : num) : bool :=
  match a, b with
  | NNaN, _ | _, NNaN => false
  | NNegInf, NNegInf => true
  | NPosInf, NPosInf => true
  | NFin m1 e1, NFin m2 e2 => match fin_cmp m1 e1 m2 e2 with Eq => true | _ => false end
  | _, _ => false
  end.

Definition to_num (v : value) : option num :=
  match v with
  | VBool b => Some (NFin (if b then 1 else 0) 0)
  | VInt z => Some (NFin z 0)
  | VFloat bits => Some (float_num bits)
  | _ => None
  end.

Fixpoint zlist_eqb (a b : list Z) : bool :=
  match a, b with
  | [], [] => true
  | x :: a', y :: b' => (x =? y) && zlist_eqb a' b'
  | _, _ => false
  end.

(* bytes.__lt__ / str.__lt__ on the UTF-8 bytes: lexicographic, a proper prefix is smaller *)
Fixpoint lex_lt (a b : list Z) : bool :=
  match a, b with
  | _, [] => false
  | [], _ :: _ => true
  | x :: a', y :: b' => if x <? y then true else if y <? x then false else lex_lt a' b'
  end.

(* Python's == on the universe (identity shortcuts excluded: NaN is never equal to anything) *)
Fixpoint py_eq (a b : value) {struct a} : bool :=
  match to_num a, to_num b with
  | Some x, Some y => num_eqb x y
  | _, _ =>
    match a, b with
    | VNone, VNone => true
    | VStr x, VStr y => zlist_eqb x y
    | VBytes x, VBytes y => zlist_eqb x y
    | VTuple x, VTuple y =>
        (fix go (x y : list value) : bool :=
           match x, y with
           | [], [] => true
           | a :: x', b :: y' => py_eq a b && go x' y'
           | _, _ => false
           end) x y
    | VList x, VList y =>
        (fix go (x y : list value) : bool :=
           match x, y with
           | [], [] => true
           | a :: x', b :: y' => py_eq a b && go x' y'
           | _, _ => false
           end) x y
    | VSet x, VSet y | VSet x, VFrozenSet y | VFrozenSet x, VSet y | VFrozenSet x, VFrozenSet y =>
        Nat.eqb (length x) (length y) && forallb (fun e => existsb (fun f => py_eq e f) y) x
    | VDict x, VDict y =>
        Nat.eqb (length x) (length y) &&
        forallb (fun kv => match kv with (k, v) =>
                   existsb (fun kv' => py_eq k (fst kv') && py_eq v (snd kv')) y end) x
    | _, _ => false
    end
  end.

(* Python's < ; None = TypeError ("'<' not supported between instances of ...") *)
Fixpoint py_lt (a b : value) {struct a} : option bool :=
  match to_num a, to_num b with
  | Some x, Some y => Some (num_ltb x y)
  | _, _ =>
    match a, b with
    | VStr x, VStr y => Some (lex_lt x y)
    | VBytes x, VBytes y => Some (lex_lt x y)
    | VTuple x, VTuple y =>
        (fix go (x y : list value) : option bool :=
           match x, y with
           | [], [] => Some false
           | [], _ :: _ => Some true
           | _ :: _, [] => Some false
           | a :: x', b :: y' => if py_eq a b then go x' y' else py_lt a b
           end) x y
    | VList x, VList y =>
        (fix go (x y : list value) : option bool :=
           match x, y with
           | [], [] => Some false
           | [], _ :: _ => Some true
           | _ :: _, [] => Some false
           | a :: x', b :: y' => if py_eq a b then go x' y' else py_lt a b
           end) x y
    | VSet x, VSet y | VSet x, VFrozenSet y | VFrozenSet x, VSet y | VFrozenSet x, VFrozenSet y =>
        (* set.__lt__: proper subset *)
        Some (Nat.ltb (length x) (length y) && forallb (fun e => existsb (fun f => py_eq e f) y) x)
    | _, _ => None
    end
  end.

(* ------------------------------------------------------------------ sorted()
   CPython's list.sort for fewer than 64 elements: count_run (initial ascending or strictly
   descending run, the latter reversed) followed by binarysort (binary insertion; the pivot goes
   after equal elements).  For >= 64 elements CPython merges runs; the model keeps inserting.  Both
   produce THE sorted list whenever the comparison is a strict total order on the elements, which
   is the case covered by the theorems; on partial orders (F12) the model is exact below 64
   elements only.  None = a comparison raised TypeError. *)
Section Sort.
Context {A : Type} (lt : A -> A -> option bool).

(* run collected in reverse: acc = [a_k; ...; a_1; a_0] *)
Fixpoint run_desc (prev : A) (t : list A) (acc : list A) : option (list A * list A) :=
  match t with
  | [] => Some (acc, [])
  | x :: t' => match lt x prev with
               | None => None
               | Some true => run_desc x t' (x :: acc)
               | Some false => Some (acc, t)
               end
  end.

Fixpoint run_asc (prev : A) (t : list A) (acc : list A) : option (list A * list A) :=
  match t with
  | [] => Some (rev acc, [])
  | x :: t' => match lt x prev with
               | None => None
               | Some true => Some (rev acc, t)
               | Some false => run_asc x t' (x :: acc)
               end
  end.

(* (sorted initial run, remaining elements) *)
Definition count_run (l : list A) : option (list A * list A) :=
  match l with
  | [] => Some ([], [])
  | [a] => Some ([a], [])
  | a :: b :: t => match lt b a with
                   | None => None
                   | Some true => run_desc b t [b; a]
                   | Some false => run_asc b t [b; a]
                   end
  end.

Fixpoint bsearch (fuel : nat) (pivot : A) (pre : list A) (l r : nat) : option nat :=
  match fuel with
  | O => Some l
  | S f => if Nat.ltb l r then
             let p := (l + Nat.div2 (r - l))%nat in
             match nth_error pre p with
             | None => Some l
             | Some x => match lt pivot x with
                         | None => None
                         | Some true => bsearch f pivot pre l p
                         | Some false => bsearch f pivot pre (S p) r
                         end
             end
           else Some l
  end.

Definition binsert (pre : list A) (pivot : A) : option (list A) :=
  match bsearch (S (length pre)) pivot pre 0 (length pre) with
  | None => None
  | Some pos => Some (firstn pos pre ++ pivot :: skipn pos pre)
  end.

Fixpoint binarysort (pre rest : list A) : option (list A) :=
  match rest with
  | [] => Some pre
  | x :: t => match binsert pre x with None => None | Some pre' => binarysort pre' t end
  end.

Definition py_sorted (l : list A) : option (list A) :=
  match count_run l with
  | None => None
  | Some (run, rest) => binarysort run rest
  end.
End Sort.

(* ------------------------------------------------------------------ opcodes *)

Inductive op :=
| OProto | OStop | ONone | OTrue | OFalse
| OBinInt1 (z : Z) | OBinInt2 (z : Z) | OBinInt (z : Z) | OLong1 (bs : list byte) | OLong4 (bs : list byte)
| OBinFloat (bits : Z)
| OBinUnicode (u : list byte) | OShortBinBytes (bs : list byte) | OBinBytes (bs : list byte)
| OEmptyTuple | OTuple1 | OTuple2 | OTuple3 | OMark | OTuple
| OEmptyList | OAppend | OAppends
| OEmptyDict | OSetItem | OSetItems
| OBinPut (i : Z) | OLongBinPut (i : Z) | OBinGet (i : Z) | OLongBinGet (i : Z)
| OGlobal (frozen : bool) | ONewObj | OBuild.

Fixpoint le_bytes (n : nat) (u : Z) : list byte :=
  match n with O => [] | S k => (u mod 256) :: le_bytes k (u / 256) end.

Definition be_bytes (n : nat) (u : Z) : list byte := rev (le_bytes n u).

Definition zlen {A} (l : list A) : Z := Z.of_nat (length l).

(* b'joblib.hashing\n_ConsistentSet\n' and b'joblib.hashing\n_ConsistentFrozenSet\n' *)
Definition name_module : list byte :=
  [106; 111; 98; 108; 105; 98; 46; 104; 97; 115; 104; 105; 110; 103; 10].
Definition name_set : list byte :=
  [95; 67; 111; 110; 115; 105; 115; 116; 101; 110; 116; 83; 101; 116; 10].
Definition name_fset : list byte :=
  [95; 67; 111; 110; 115; 105; 115; 116; 101; 110; 116; 70; 114; 111; 122; 101; 110; 83; 101; 116; 10].
(* '_sequence' *)
Definition name_sequence : list byte := [95; 115; 101; 113; 117; 101; 110; 99; 101].

Definition ser (o : op) : list byte :=
  match o with
  | OProto => [128; 3]
  | OStop => [46]
  | ONone => [78]
  | OTrue => [136]
  | OFalse => [137]
  | OBinInt1 z => 75 :: le_bytes 1 z
  | OBinInt2 z => 77 :: le_bytes 2 z
  | OBinInt z => 74 :: le_bytes 4 (z mod 4294967296)
  | OLong1 bs => 138 :: le_bytes 1 (zlen bs) ++ bs
  | OLong4 bs => 139 :: le_bytes 4 (zlen bs) ++ bs
  | OBinFloat bits => 71 :: be_bytes 8 bits
  | OBinUnicode u => 88 :: le_bytes 4 (zlen u) ++ u
  | OShortBinBytes bs => 67 :: le_bytes 1 (zlen bs) ++ bs
  | OBinBytes bs => 66 :: le_bytes 4 (zlen bs) ++ bs
  | OEmptyTuple => [41]
  | OTuple1 => [133]
  | OTuple2 => [134]
  | OTuple3 => [135]
  | OMark => [40]
  | OTuple => [116]
  | OEmptyList => [93]
  | OAppend => [97]
  | OAppends => [101]
  | OEmptyDict => [125]
  | OSetItem => [115]
  | OSetItems => [117]
  | OBinPut i => 113 :: le_bytes 1 i
  | OLongBinPut i => 114 :: le_bytes 4 i
  | OBinGet i => 104 :: le_bytes 1 i
  | OLongBinGet i => 106 :: le_bytes 4 i
  | OGlobal false => 99 :: name_module ++ name_set
  | OGlobal true => 99 :: name_module ++ name_fset
  | ONewObj => [129]
  | OBuild => [98]
  end.

Definition ser_all (ops : list op) : list byte := flat_map ser ops.

(* ------------------------------------------------------------------ scalars *)

(* pickle.encode_long: minimal little-endian two's complement *)
Definition encode_long (x : Z) : list byte :=
  if x =? 0 then [] else
  let nbytes := (Z.log2 (Z.abs x) + 1) / 8 + 1 in
  let u := x mod 2 ^ (8 * nbytes) in
  if (x <? 0) && (1 <? nbytes)
     && ((u / 2 ^ (8 * (nbytes - 1))) mod 256 =? 255)
     && (128 <=? (u / 2 ^ (8 * (nbytes - 2))) mod 256)
  then le_bytes (Z.to_nat (nbytes - 1)) u
  else le_bytes (Z.to_nat nbytes) u.

(* Pickler.save_long, bin, proto 3 *)
Definition enc_int (z : Z) : op :=
  if (0 <=? z) && (z <=? 255) then OBinInt1 z
  else if (0 <=? z) && (z <=? 65535) then OBinInt2 z
  else if (-2147483648 <=? z) && (z <=? 2147483647) then OBinInt z
  else let bs := encode_long z in
       if zlen bs <? 256 then OLong1 bs else OLong4 bs.

(* Pickler.save_bytes, proto 3 (Hasher.memoize: never memoised) *)
Definition enc_bytes (bs : list byte) : op :=
  if zlen bs <=? 255 then OShortBinBytes bs else OBinBytes bs.

(* ------------------------------------------------------------------ memo *)

(* Pickler.memo restricted to what can be hit without aliasing: the running index and the
   indices of the two class globals *)
Record memo := { mnext : Z; mset : option Z; mfset : option Z }.
Definition memo0 : memo := {| mnext := 0; mset := None; mfset := None |}.

Definition put_op (i : Z) : op := if i <? 256 then OBinPut i else OLongBinPut i.
Definition get_op (i : Z) : op := if i <? 256 then OBinGet i else OLongBinGet i.

(* Pickler.memoize of a fresh object: write put(len(memo)) *)
Definition memoize (m : memo) : list op * memo :=
  ([put_op (mnext m)], {| mnext := mnext m + 1; mset := mset m; mfset := mfset m |}).

(* save(cls) for _ConsistentSet / _ConsistentFrozenSet: GLOBAL + memoize the first time, BINGET after *)
Definition save_class (frozen : bool) (m : memo) : list op * memo :=
  match (if frozen then mfset m else mset m) with
  | Some i => ([get_op i], m)
  | None => ([OGlobal frozen; put_op (mnext m)],
             if frozen then {| mnext := mnext m + 1; mset := mset m; mfset := Some (mnext m) |}
             else {| mnext := mnext m + 1; mset := Some (mnext m); mfset := mfset m |})
  end.

(* ------------------------------------------------------------------ containers *)

Definition encoder := memo -> option (list op * memo).

(* save each element in turn, threading the memo; keeps the per-element op lists apart *)
Fixpoint run_seq (es : list encoder) (m : memo) : option (list (list op) * memo) :=
  match es with
  | [] => Some ([], m)
  | e :: t => match e m with
              | None => None
              | Some (o, m1) => match run_seq t m1 with
                                | None => None
                                | Some (os, m2) => Some (o :: os, m2)
                                end
              end
  end.

Definition BATCHSIZE : nat := 1000.   (* pickle._Pickler._BATCHSIZE; compared with the live value *)

(* Pickler._batch_appends / _batch_setitems (bin): `while True: tmp = list(islice(it, _BATCHSIZE))`,
   n > 1 -> MARK items many ; n = 1 -> item one ; `if n < _BATCHSIZE: return` *)
Fixpoint batch (fuel : nat) (one many : op) (items : list (list op)) : list op :=
  match fuel with
  | O => []
  | S f =>
    let tmp := firstn BATCHSIZE items in
    let n := length tmp in
    (match tmp with
     | [] => []
     | [x] => x ++ [one]
     | _ => OMark :: concat tmp ++ [many]
     end) ++ (if Nat.ltb n BATCHSIZE then [] else batch f one many (skipn BATCHSIZE items))
  end.
Definition batch_all (one many : op) (items : list (list op)) : list op :=
  batch (S (length items)) one many items.

(* Pickler.save_tuple, proto 3, non-recursive tuple *)
Definition enc_tuple (es : list encoder) (m : memo) : option (list op * memo) :=
  match es with
  | [] => Some ([OEmptyTuple], m)
  | _ => match run_seq es m with
         | None => None
         | Some (os, m1) =>
           let n := length es in
           let (p, m2) := memoize m1 in
           Some ((if Nat.leb n 3 then concat os ++ [match n with 1%nat => OTuple1 | 2%nat => OTuple2 | _ => OTuple3 end]
                  else OMark :: concat os ++ [OTuple]) ++ p, m2)
         end
  end.

(* Pickler.save_list *)
Definition enc_list (es : list encoder) (m : memo) : option (list op * memo) :=
  let (p, m1) := memoize m in
  match run_seq es m1 with
  | None => None
  | Some (os, m2) => Some (OEmptyList :: p ++ batch_all OAppend OAppends os, m2)
  end.

Definition enc_str (u : list byte) : encoder := fun m => Some ([OBinUnicode u], m).

Section Enc.
Variable md5 : list byte -> list byte.   (* hashlib.md5(b).hexdigest() as ASCII codes *)

(* joblib.hashing.hash(k) of the fallback: a fresh Hasher (fresh memo), md5 *)
Definition digest_of (e : encoder) : option (list byte) :=
  match e memo0 with
  | None => None
  | Some (ops, _) => Some (md5 (ser_all (OProto :: ops ++ [OStop])))
  end.

Fixpoint digests {B} (l : list (B * encoder)) : option (list (list byte * B)) :=
  match l with
  | [] => Some []
  | (b, e) :: t => match digest_of e, digests t with
                   | Some d, Some ds => Some ((d, b) :: ds)
                   | _, _ => None
                   end
  end.

(* tuple comparison of the (key, value) pairs handed to sorted() *)
Definition pair_lt (k1 v1 k2 v2 : value) : option bool :=
  if py_eq k1 k2 then (if py_eq v1 v2 then Some false else py_lt v1 v2) else py_lt k1 k2.

(* a dict item travelling with the encoders of its parts *)
Definition ditem := (value * value * encoder * encoder)%type.
Definition ditem_lt (a b : ditem) : option bool :=
  match a, b with (k1, v1, _, _), (k2, v2, _, _) => pair_lt k1 v1 k2 v2 end.
(* fallback: sorted((hash(k), v) for k, v in items) *)
Definition hitem := (list byte * (value * encoder))%type.
Definition hitem_lt (a b : hitem) : option bool :=
  match a, b with (d1, (v1, _)), (d2, (v2, _)) => pair_lt (VStr d1) v1 (VStr d2) v2 end.

(* Hasher._batch_setitems: the encoders of the (key, value) pairs in the order they are written *)
Definition dict_order (its : list ditem) : option (list (encoder * encoder)) :=
  match py_sorted ditem_lt its with
  | Some s => Some (map (fun it : ditem => match it with (_, _, ek, ev) => (ek, ev) end) s)
  | None =>
    match digests (map (fun it : ditem => match it with (k, v, ek, ev) => ((v, ev), ek) end) its) with
    | None => None
    | Some hs => match py_sorted hitem_lt hs with
                 | None => None
                 | Some s => Some (map (fun h : hitem => match h with (d, (_, ev)) => (enc_str d, ev) end) s)
                 end
    end
  end.

Definition pair_encoder (kv : encoder * encoder) : encoder :=
  fun m => match fst kv m with
           | None => None
           | Some (ok, m1) => match snd kv m1 with
                              | None => None
                              | Some (ov, m2) => Some (ok ++ ov, m2)
                              end
           end.

(* Pickler.save_dict + Hasher._batch_setitems *)
Definition enc_dict (its : list ditem) (m : memo) : option (list op * memo) :=
  let (p, m1) := memoize m in
  match dict_order its with
  | None => None
  | Some order =>
    match run_seq (map pair_encoder order) m1 with
    | None => None
    | Some (os, m2) => Some (OEmptyDict :: p ++ batch_all OSetItem OSetItems os, m2)
    end
  end.

(* _ConsistentSet.__init__: the encoders of self._sequence *)
Definition selem := (value * encoder)%type.
Definition selem_lt (a b : selem) : option bool := py_lt (fst a) (fst b).
Definition str_lt (a b : list byte) : option bool := Some (lex_lt a b).

Definition set_order (es : list selem) : option (list encoder) :=
  match py_sorted selem_lt es with
  | Some s => Some (map snd s)
  | None =>
    match digests (map (fun x : selem => (tt, snd x)) es) with
    | None => None
    | Some ds => match py_sorted str_lt (map fst ds) with
                 | None => None
                 | Some s => Some (map enc_str s)
                 end
    end
  end.

(* Hasher.save_set / save_frozenset: Pickler.save(_ConsistentSet(items)) through
   object.__reduce_ex__(3) = (copyreg.__newobj__, (cls,), {'_sequence': [...]}) *)
Definition enc_set (frozen : bool) (es : list selem) (m : memo) : option (list op * memo) :=
  match set_order es with
  | None => None
  | Some order =>
    let (c, m1) := save_class frozen m in
    let (p_obj, m2) := memoize m1 in
    let (p_state, m3) := memoize m2 in
    match enc_list order m3 with
    | None => None
    | Some (lops, m4) =>
      Some (c ++ [OEmptyTuple; ONewObj] ++ p_obj ++ [OEmptyDict] ++ p_state
              ++ [OBinUnicode name_sequence] ++ lops ++ [OSetItem; OBuild], m4)
    end
  end.

(* Pickler.save on the universe *)
Fixpoint enc (v : value) : encoder :=
  match v with
  | VNone => fun m => Some ([ONone], m)
  | VBool b => fun m => Some ([if b then OTrue else OFalse], m)
  | VInt z => fun m => Some ([enc_int z], m)
  | VFloat bits => fun m => Some ([OBinFloat bits], m)
  | VStr u => enc_str u
  | VBytes bs => fun m => Some ([enc_bytes bs], m)
  | VTuple l => enc_tuple ((fix go (l : list value) : list encoder :=
                              match l with [] => [] | x :: t => enc x :: go t end) l)
  | VList l => enc_list ((fix go (l : list value) : list encoder :=
                            match l with [] => [] | x :: t => enc x :: go t end) l)
  | VDict items => enc_dict ((fix go (l : list (value * value)) : list ditem :=
                                match l with [] => [] | (k, x) :: t => (k, x, enc k, enc x) :: go t end) items)
  | VSet l => enc_set false ((fix go (l : list value) : list selem :=
                                match l with [] => [] | x :: t => (x, enc x) :: go t end) l)
  | VFrozenSet l => enc_set true ((fix go (l : list value) : list selem :=
                                     match l with [] => [] | x :: t => (x, enc x) :: go t end) l)
  end.

Definition enc_ops (m : memo) (v : value) : option (list op * memo) := enc v m.

(* Hasher.dump(v); stream.getvalue() *)
Definition enc_top_ops (v : value) : option (list op) :=
  match enc v memo0 with
  | None => None
  | Some (ops, _) => Some (OProto :: ops ++ [OStop])
  end.

Definition enc_top (v : value) : option (list byte) :=
  match enc_top_ops v with None => None | Some ops => Some (ser_all ops) end.

Definition digest_input := enc_top.

(* joblib.hash(v) with the default hash_name='md5' *)
Definition hash_md5 (v : value) : option (list byte) :=
  match enc_top v with None => None | Some b => Some (md5 b) end.
End Enc.
