(* M9 -- hand-written model of joblib/parallel.py: the thread-local configuration installed by
   parallel_config / parallel_backend (__init__, __enter__, __exit__, unregister), _get_config_param,
   _get_active_backend, get_active_backend and the backend / n_jobs / backend-kwargs resolution of
   Parallel.__init__; programs of well-nested `with` blocks executed by several threads.
   Executable definitions only.  _get_config_param is ALSO regenerated from the source
   (Gen/T_config_param.v); Proofs/Config.v shows the two agree. *)
From Coq Require Import ZArith List Bool.
Require Import JV.Base.PyPrelude.
Import ListNotations.
Open Scope Z_scope.

(* backend classes: the four built-in ones and two user-defined ParallelBackendBase subclasses
   (one with supports_sharedmem = uses_threads = True, one with neither) *)
Inductive ckind := BSeq | BThr | BLoky | BMp | BCustShm | BCustProc.

Definition supports_sharedmem (k : ckind) : bool :=
  match k with BSeq | BThr | BCustShm => true | _ => false end.
Definition uses_threads (k : ckind) : bool :=
  match k with BSeq | BThr | BCustShm => true | _ => false end.

(* a backend instance: class and nesting_level *)
Record cbk := { ck : ckind; clevel : Z }.

(* max_nbytes values: None, an int, or a string '<mantissa><unit>' (unit = character code) *)
Inductive mnb := MNone | MInt (z : Z) | MStr (mant unit : Z).

(* The thread-local dict `_backend.config`.  [None] = the key still holds its _Sentinel.
   prefer: 0 = None, 1 = 'threads', 2 = 'processes', anything else = an invalid string;
   require: 0 = None, 1 = 'sharedmem', anything else invalid; temp_folder / mmap_mode: opaque codes;
   n_jobs: Some None = the (non-sentinel) value None. *)
Record config := {
  c_backend : option cbk;
  c_njobs   : option (option Z);
  c_verbose : option Z;
  c_temp    : option Z;
  c_maxnb   : option mnb;
  c_mmap    : option Z;
  c_prefer  : option Z;
  c_require : option Z
}.

Definition default_config : config :=
  {| c_backend := None; c_njobs := None; c_verbose := None; c_temp := None; c_maxnb := None;
     c_mmap := None; c_prefer := None; c_require := None |}.

(* default_value of the eight sentinels *)
Definition d_verbose : Z := 0.
Definition d_temp : Z := 0.                (* None *)
Definition d_maxnb : mnb := MStr 1 77.     (* '1M' *)
Definition d_mmap : Z := 1.                (* 'r' *)
Definition d_prefer : Z := 0.
Definition d_require : Z := 0.

(* the backend argument of a context manager / of Parallel: an instance or registered name of class k
   whose nesting_level is already set (Some l) or not (None); or an unknown name *)
Inductive bspec := BInst (k : ckind) (lvl : option Z) | BInvalid.

(* arguments of parallel_config(...): None = argument left at its sentinel default *)
Record cspec := {
  s_backend : option bspec;
  s_njobs   : option (option Z);
  s_verbose : option Z;
  s_temp    : option Z;
  s_maxnb   : option mnb;
  s_mmap    : option Z;
  s_prefer  : option Z;
  s_require : option Z;
  s_byname  : bool;      (* the backend is passed as a registered NAME (a str), not as an instance *)
  s_inner   : option Z;  (* inner_max_num_threads *)
  s_params  : bool       (* extra **backend_params are passed *)
}.

(* dict.update with the non-sentinel entries *)
Definition ov {A} (new old : option A) : option A := match new with Some _ => new | None => old end.

(* parallel_config._check_backend: everything that can reject the call runs BEFORE anything is installed.
   - no backend given but inner_max_num_threads / extra backend_params given: ValueError;
   - unknown name: ValueError;  an INSTANCE together with backend_params: ValueError;
   - inner_max_num_threads with a backend that does not support it (only LokyBackend does): `assert` -> AssertionError
     (OtherError 2);
   - nesting_level inherited from the enclosing context's backend when the instance has none. *)
Definition supports_inner (k : ckind) : bool := match k with BLoky => true | _ => false end.
Definition is_some {A} (o : option A) : bool := match o with Some _ => true | None => false end.

Definition check_backend (s : cspec) (old : config) : result (option cbk) :=
  match s_backend s with
  | None => if is_some (s_inner s) || s_params s then Raise ValueError else Ok None
  | Some BInvalid => Raise ValueError
  | Some (BInst k lvl) =>
      if negb (s_byname s) && s_params s then Raise ValueError
      else if is_some (s_inner s) && negb (supports_inner k) then Raise (OtherError 2)
      else
        let l := match lvl with
                 | Some l => l
                 | None => match c_backend old with None => 0 | Some pb => clevel pb end
                 end in
        Ok (Some {| ck := k; clevel := l |})
  end.

(* parallel_config.__init__: the new thread-local configuration (the old one is kept by the manager) *)
Definition enter (s : cspec) (old : config) : result config :=
  bind (check_backend s old) (fun b =>
  Ok {| c_backend := ov b (c_backend old);
        c_njobs   := ov (s_njobs s) (c_njobs old);
        c_verbose := ov (s_verbose s) (c_verbose old);
        c_temp    := ov (s_temp s) (c_temp old);
        c_maxnb   := ov (s_maxnb s) (c_maxnb old);
        c_mmap    := ov (s_mmap s) (c_mmap old);
        c_prefer  := ov (s_prefer s) (c_prefer old);
        c_require := ov (s_require s) (c_require old) |}).

(* which class is used as the context manager; parallel_backend(backend, n_jobs=-1) *)
Inductive mgr := MConfig | MBackend.
Definition norm_spec (m : mgr) (s : cspec) : cspec :=
  match m with
  | MConfig => s
  | MBackend =>
      {| s_backend := s_backend s;
         s_njobs := match s_njobs s with None => Some (Some (-1)) | v => v end;
         s_verbose := None; s_temp := None; s_maxnb := None; s_mmap := None; s_prefer := None; s_require := None;
         s_byname := s_byname s; s_inner := s_inner s; s_params := s_params s |}
  end.

(* _get_config_param: explicit argument, else the context's value, else the default *)
Definition gcp {V} (param ctxv : option V) (dflt : V) : V :=
  match param with Some v => v | None => match ctxv with Some v => v | None => dflt end end.

Definition valid_prefer (p : Z) : bool := (p =? 0) || (p =? 1) || (p =? 2).
Definition valid_require (r : Z) : bool := (r =? 0) || (r =? 1).

Definition default_cbk : cbk := {| ck := BLoky; clevel := 0 |}.   (* BACKENDS[DEFAULT_BACKEND](nesting_level=0) *)

Definition set_njobs (c : config) (v : option (option Z)) : config :=
  {| c_backend := c_backend c; c_njobs := v; c_verbose := c_verbose c; c_temp := c_temp c;
     c_maxnb := c_maxnb c; c_mmap := c_mmap c; c_prefer := c_prefer c; c_require := c_require c |}.

Definition force_threads (explicit : bool) (b : cbk) (prefer require : Z) : bool :=
  ((require =? 1) && negb (supports_sharedmem (ck b))) ||
  (negb explicit && (prefer =? 1) && negb (uses_threads (ck b))).
Definition force_processes (explicit : bool) (b : cbk) (prefer : Z) : bool :=
  negb explicit && (prefer =? 2) && uses_threads (ck b).

(* _get_active_backend(prefer, require, verbose): the backend and the configuration handed back.
   dk = the class registered as DEFAULT_BACKEND (loky unless register_parallel_backend(..., make_default=True)
   or multiprocessing is unavailable). *)
Definition active_backend_dk (dk : ckind) (a_prefer a_require : option Z) (c : config) : result (cbk * config) :=
  let backend := gcp None (option_map Some (c_backend c)) None in
  let prefer := gcp a_prefer (c_prefer c) d_prefer in
  let require := gcp a_require (c_require c) d_require in
  if negb (valid_prefer prefer) then Raise ValueError
  else if negb (valid_require require) then Raise ValueError
  else if (prefer =? 2) && (require =? 1) then Raise ValueError
  else
    let explicit := match backend with Some _ => true | None => false end in
    let b := match backend with Some b => b | None => {| ck := dk; clevel := 0 |} end in
    if force_threads explicit b prefer require
    then Ok ({| ck := BThr; clevel := clevel b |}, set_njobs c (Some (Some 1)))   (* thread_config["n_jobs"] = 1 *)
    else if force_processes explicit b prefer
    then Ok ({| ck := BLoky; clevel := clevel b |}, c)
    else Ok (b, c).

Definition active_backend (a_prefer a_require : option Z) (c : config) : result (cbk * config) :=
  active_backend_dk BLoky a_prefer a_require c.

(* get_active_backend(prefer, require) -> (backend, n_jobs) *)
Definition get_active (a_prefer a_require : option Z) (c : config) : result (cbk * option Z) :=
  bind (active_backend a_prefer a_require c) (fun '(b, cfg) => Ok (b, gcp None (c_njobs cfg) None)).

(* disk.memstr_to_bytes for integer mantissas *)
Definition memstr (mant unit : Z) : result Z :=
  if unit =? 75 then Ok (1024 * mant)
  else if unit =? 77 then Ok (1024 * 1024 * mant)
  else if unit =? 71 then Ok (1024 * 1024 * 1024 * mant)
  else Raise ValueError.
Definition conv_maxnb (m : mnb) : result (option Z) :=
  match m with MNone => Ok None | MInt z => Ok (Some z) | MStr mant u => rmap Some (memstr mant u) end.

(* arguments of Parallel(...): None = left at the sentinel default.  a_njobs = Some None is n_jobs=None *)
Record pargs := {
  a_njobs   : option (option Z);
  a_backend : option bspec;
  a_verbose : option Z;
  a_temp    : option Z;
  a_maxnb   : option mnb;
  a_mmap    : option Z;
  a_prefer  : option Z;
  a_require : option Z
}.

(* what a Parallel instance ends up with *)
Record pres := {
  r_kind : ckind; r_level : Z; r_njobs : Z; r_verbose : Z;
  r_kw_maxnb : option Z; r_kw_temp : Z; r_kw_mmap : Z; r_kw_prefer : Z; r_kw_require : Z; r_kw_verbose : Z
}.

(* <class>.default_n_jobs: 1 in ParallelBackendBase and every built-in backend; the user-defined process backend of the check
   declares default_n_jobs = -1 (as the dask backend does) *)
Definition default_n_jobs (k : ckind) : Z := match k with BCustProc => -1 | _ => 1 end.

(* Parallel.__init__ (return_as='list', batch_size='auto', no backend_kwargs), given the function that plays
   _get_active_backend (the hand model, or the one regenerated from the source: Proofs/Config.v) *)
Definition parallel_init_with (ab : option Z -> option Z -> config -> result (cbk * config))
                              (a : pargs) (c : config) : result pres :=
  let njobs_arg : option Z := match a_njobs a with Some (Some n) => Some n | _ => None end in
  bind (ab (a_prefer a) (a_require a) c) (fun '(ab, ctx) =>
  let level := clevel ab in
  let verbose := gcp (a_verbose a) (c_verbose ctx) d_verbose in
  let maxnb := gcp (a_maxnb a) (c_maxnb ctx) d_maxnb in
  let temp := gcp (a_temp a) (c_temp ctx) d_temp in
  let mmap := gcp (a_mmap a) (c_mmap ctx) d_mmap in
  let prefer := gcp (a_prefer a) (c_prefer ctx) d_prefer in
  let require := gcp (a_require a) (c_require ctx) d_require in
  bind (conv_maxnb maxnb) (fun kw_maxnb =>
  bind (match a_backend a with
        | None => Ok ab
        | Some BInvalid => Raise ValueError
        | Some (BInst k lvl) => Ok {| ck := k; clevel := match lvl with Some l => l | None => level end |}
        end) (fun backend =>
  let njobs : option Z := gcp (option_map Some njobs_arg) (c_njobs ctx) None in
  let njobs := match njobs with Some n => n | None => default_n_jobs (ck backend) end in
  (* `if require == "sharedmem"` tests the ARGUMENT, not the resolved setting *)
  if match a_require a with Some 1 => negb (supports_sharedmem (ck backend)) | _ => false end
  then Raise ValueError
  else Ok {| r_kind := ck backend; r_level := clevel backend; r_njobs := njobs; r_verbose := verbose;
             r_kw_maxnb := kw_maxnb; r_kw_temp := temp; r_kw_mmap := mmap; r_kw_prefer := prefer;
             r_kw_require := require; r_kw_verbose := Z.max 0 (verbose - 50) |}))).

Definition parallel_init (a : pargs) (c : config) : result pres := parallel_init_with active_backend a c.
Definition parallel_init_dk (dk : ckind) (a : pargs) (c : config) : result pres :=
  parallel_init_with (active_backend_dk dk) a c.

(* the configuration inside the blocks [specs] (outermost first), started from the default one *)
Fixpoint cfg_of_specs (specs : list (mgr * cspec)) (c : config) : result config :=
  match specs with
  | [] => Ok c
  | (m, s) :: rest => bind (enter (norm_spec m s) c) (cfg_of_specs rest)
  end.

(* ------------------------------------------------------------------ programs and threads *)
Inductive obsq :=
| QParallel (a : pargs)                 (* construct Parallel(args a) and look at it *)
| QActive (p r : option Z)              (* get_active_backend(prefer=p, require=r) *)
| QConfig.                              (* read the thread-local configuration itself *)

Inductive obsr :=
| RParallel (r : result pres)
| RActive (r : result (cbk * option Z))
| RConfig (c : config).

Definition observe (q : obsq) (c : config) : obsr :=
  match q with
  | QParallel a => RParallel (parallel_init a c)
  | QActive p r => RActive (get_active p r c)
  | QConfig => RConfig c
  end.
Definition obs_raises (r : obsr) : bool :=
  match r with RParallel (Raise _) | RActive (Raise _) => true | _ => false end.

(* well-nested programs: `with` blocks, sequencing, observations, raise, try/except *)
Inductive prog :=
| PSkip
| PSeq (p q : prog)
| PWith (m : mgr) (s : cspec) (body : prog)    (* with parallel_config(args s): body *)
| PObs (q : obsq)                              (* an exception of the observed call propagates *)
| PRaise                                       (* raise KeyError *)
| PTry (p : prog).                             (* try: p  except Exception: pass *)

Inductive frame :=
| FSeq (q : prog)
| FWith (old : config) (s : cspec)   (* the manager object: old_parallel_config (s is ghost: its arguments) *)
| FTry.

Inductive ctl := Run (p : prog) | Done | Throw.

Record tstate := { t_cur : config; t_ctl : ctl; t_stack : list frame; t_trace : list obsr }.

Definition mk (c : config) (x : ctl) (k : list frame) (tr : list obsr) : tstate :=
  {| t_cur := c; t_ctl := x; t_stack := k; t_trace := tr |}.

(* one step of one thread; a halted thread (Done/Throw with an empty stack) stays as it is *)
Definition step (ts : tstate) : tstate :=
  let c := t_cur ts in let k := t_stack ts in let tr := t_trace ts in
  match t_ctl ts with
  | Run PSkip => mk c Done k tr
  | Run (PSeq p q) => mk c (Run p) (FSeq q :: k) tr
  | Run (PWith m s body) =>
      (* parallel_config.__init__ saves the current config and installs the new one as its LAST statement;
         if it raises nothing was installed and __exit__ is not called *)
      match enter (norm_spec m s) c with
      | Ok c' => mk c' (Run body) (FWith c (norm_spec m s) :: k) tr
      | Raise _ => mk c Throw k tr
      end
  | Run (PObs q) => let r := observe q c in mk c (if obs_raises r then Throw else Done) k (tr ++ [r])
  | Run PRaise => mk c Throw k tr
  | Run (PTry p) => mk c (Run p) (FTry :: k) tr
  | Done =>
      match k with
      | [] => ts
      | FSeq q :: k' => mk c (Run q) k' tr
      | FWith old _ :: k' => mk old Done k' tr        (* __exit__ -> unregister: config := old *)
      | FTry :: k' => mk c Done k' tr
      end
  | Throw =>
      match k with
      | [] => ts
      | FSeq _ :: k' => mk c Throw k' tr
      | FWith old _ :: k' => mk old Throw k' tr       (* __exit__ runs on the exceptional path too *)
      | FTry :: k' => mk c Done k' tr
      end
  end.

Fixpoint iter (n : nat) (ts : tstate) : tstate :=
  match n with O => ts | S m => iter m (step ts) end.

Definition halted (ts : tstate) : bool :=
  match t_ctl ts, t_stack ts with Done, [] | Throw, [] => true | _, _ => false end.

Definition start (c : config) (p : prog) : tstate := mk c (Run p) [] [].

(* run one thread alone until it halts (fuel-bounded; [steps_bound] is enough, see Proofs) *)
Fixpoint run_solo (fuel : nat) (ts : tstate) : tstate :=
  match fuel with O => ts | S f => if halted ts then ts else run_solo f (step ts) end.

Fixpoint steps_bound (p : prog) : nat :=
  match p with
  | PSkip | PObs _ | PRaise => 1
  | PSeq p q => steps_bound p + steps_bound q + 2
  | PWith _ _ b => steps_bound b + 2
  | PTry p => steps_bound p + 2
  end.

(* threads: `threading.local()` gives every thread its own `config` attribute -- modelled as a map
   from thread ids to thread states; a schedule is the sequence of thread ids taking a step *)
Definition gstate := nat -> tstate.
Definition gstep (g : gstate) (t : nat) : gstate := fun u => if Nat.eqb u t then step (g t) else g u.
Definition grun (sched : list nat) (g : gstate) : gstate := fold_left gstep sched g.
Definition count_tid (t : nat) (sched : list nat) : nat := length (filter (Nat.eqb t) sched).

(* the `with` blocks a thread is currently inside of, innermost first *)
Fixpoint specs_of (k : list frame) : list cspec :=
  match k with
  | [] => []
  | FWith _ s :: k' => s :: specs_of k'
  | _ :: k' => specs_of k'
  end.

(* innermost block that sets a key wins, then outer ones, then the default *)
Fixpoint innermost {A} (f : cspec -> option A) (specs : list cspec) : option A :=
  match specs with [] => None | s :: rest => match f s with Some v => Some v | None => innermost f rest end end.

(* explicit argument > innermost enclosing block > outer blocks > default *)
Definition prio {A} (arg : option A) (f : cspec -> option A) (specs : list cspec) (dflt : A) : A :=
  match arg with Some v => v | None => match innermost f specs with Some v => v | None => dflt end end.

Definition bspec_kind (b : bspec) : option ckind := match b with BInst k _ => Some k | BInvalid => None end.

(* ------------------------------------------------------------ the multiprocessing start method
   One more resolved setting: the context handed to the process-based backends (_backend_kwargs["context"]).  Sources:
   arg = a multiprocessing context object passed as `backend=` (it also selects MultiprocessingBackend),
   env = JOBLIB_START_METHOD (DEFAULT_MP_CONTEXT, read at import), dflt = mp.get_context().  Values = start-method codes. *)
Definition mp_context_model (env arg : option Z) (dflt : Z) : Z := gcp arg env dflt.

(* --------------------------------------------------------------- the life of one Parallel object
   The record [pres] is resolved ONCE, by Parallel.__init__.  Afterwards the backend is (re)configured: on __enter__, at the
   start of every call of an unmanaged object, and by abort_everything(ensure_ready=True) after a failed call of a managed
   object.  [passes] says whether abort_everything hands **self.parallel._backend_kwargs to configure (regenerated per
   backend family: Gen/T_mp_context.v). *)
Inductive oop := OEnter | OCallOk | OCallFail | OExit.
(* one configure call: the n_jobs it got and whether it got the object's resolved backend kwargs *)
Inductive cfgcall := CFull (r : pres) | CBare (n : Z).

Record pobj := { o_res : pres; o_managed : bool; o_calls : list cfgcall }.

Definition new_obj (r : pres) : pobj := {| o_res := r; o_managed := false; o_calls := [] |}.

Definition ostep (passes : bool) (o : pobj) (op : oop) : pobj :=
  let r := o_res o in
  match op with
  | OEnter => {| o_res := r; o_managed := true; o_calls := o_calls o ++ [CFull r] |}
  | OCallOk => if o_managed o then o else {| o_res := r; o_managed := false; o_calls := o_calls o ++ [CFull r] |}
  | OCallFail =>
      if o_managed o
      then {| o_res := r; o_managed := true;
              o_calls := o_calls o ++ [if passes then CFull r else CBare (r_njobs r)] |}
      else {| o_res := r; o_managed := false; o_calls := o_calls o ++ [CFull r] |}   (* ensure_ready=False: no reconfigure *)
  | OExit => {| o_res := r; o_managed := false; o_calls := o_calls o |}
  end.

Definition orun (passes : bool) (ops : list oop) (o : pobj) : pobj := fold_left (ostep passes) ops o.

(* ------------------------------------------------------------ loky: the temp folder of a REUSED executor
   The folder root an executor writes memmaps to is fixed by the TemporaryResourcesManager(temp_folder) it holds.
   get_memmapping_executor builds a new manager for every call but (regenerated facts: Gen/T_pool_settings.v) compares
   the executor arguments with or without temp_folder [key_has_tf] and installs the new manager on a reused executor or
   not [new_mgr_on_reuse].  prev = folder of the live executor, given = the temp_folder resolved for this call. *)
Definition loky_folder_used (key_has_tf new_mgr_on_reuse : bool) (prev given : Z) (other_args_equal : bool) : Z :=
  let reused := other_args_equal && (negb key_has_tf || (prev =? given)) in
  if reused && negb new_mgr_on_reuse then prev else given.

(* --------------------------------------------------------- nested n_jobs across pickling
   A task batch carries the pair (nested backend, nested n_jobs) that get_nested_backend() returned; process workers receive
   the batch through pickle (BatchedCalls.__reduce__), thread workers directly.  [keeps]: the pickled form keeps the pair
   (otherwise the backward-compatibility branch of BatchedCalls.__init__ makes n_jobs None). *)
Definition batch_njobs_in_worker (keeps pickled : bool) (nested_njobs : option Z) : option Z :=
  if pickled && negb keeps then None else nested_njobs.

(* ------------------------------------------------------------ where mmap_mode is USED
   The mode of the memmap a worker really receives for an array above max_nbytes: the resolved mmap_mode (codes of the check:
   1 'r', 2 'r+', 3 'w+', 4 'c') if the pool / executor hands it on to the reducers [passes], with 'w+' coerced to 'r+' on
   unpickling (documented); otherwise the reducers' own default 'r'. *)
Definition worker_mmap_mode (passes : bool) (resolved : Z) : Z :=
  if passes then (if resolved =? 3 then 2 else resolved) else 1.
