(* M1q -- the sequential path of joblib.Parallel: n_jobs resolves to 1 (n_jobs=1, the sequential backend, the
   fall-back of nested / single-CPU / one-worker configurations).  Parallel.__call__ then does

       output = self._get_sequential_output(iterable);  next(output)
       return output if self.return_generator else list(output)

   and _get_sequential_output is one generator running in the caller's thread:

       try:    _iterating = True; _original_iterator = iterable; _pre_dispatch_amount = 0
               batch_size = _get_batch_size()
               if batch_size != 1: iterable = chain of tuple(islice(it, batch_size)) slices, until an empty slice
               yield None
               for func, args, kwargs in iterable:
                   n_dispatched_batches += 1; n_dispatched_tasks += 1
                   res = func( *args, **kwargs ); n_completed_tasks += 1; print_progress()
                   yield res
                   _nb_consumed += 1
       except BaseException: _exception = _aborting = _aborted = True; raise
       finally: _running = False; _iterating = False; _original_iterator = None; print_progress()

   The model is that generator as a state machine.  Tasks are numbered 0 .. N-1 and return their own number;
   qtfail = Some i: task i raises; qifail = Some j: the j-th pull of the input raises (j = N: at its end).
   Events: QCall (the whole of __call__; in list mode it runs the generator to its end), QNext (the consumer pulls
   from the generator), QClose (generator closed or collected). *)
From Coq Require Import List Bool Arith PeanoNat.
Require Import JV.Model.ParallelCore.
Import ListNotations.

Record qcfg := { qN : nat; qifail : option nat; qtfail : option nat; qbs : nat; qgen : bool }.

Record qst := mk_qst {
  qc : qcfg;
  qrunning : bool;           (* Parallel._running *)
  qalive : bool;             (* the generator object exists and has not finished *)
  qsusp : bool;              (* suspended at `yield res`: `_nb_consumed += 1` is due when it is resumed *)
  qtaken : nat;              (* successful pulls of the input *)
  qbuf : list nat;           (* tasks of the current slice that were pulled and have not run yet *)
  qndisp : nat; qncomp : nat; qcons : nat;
  qiter : bool; qabort : bool; qexc : bool;
  qdelivered : list nat      (* values handed to the consumer by the current call, oldest first *)
}.

Definition qcfg0 : qcfg := {| qN := 0; qifail := None; qtfail := None; qbs := 1; qgen := false |}.
Definition qinit : qst :=
  mk_qst qcfg0 false false false 0 [] 0 0 0 false false false [].

Inductive qres := QYield (v : nat) | QRaise (e : err) | QStop.

(* finally block (+ the except block when `failed`) *)
Definition qfinish (s : qst) (failed : bool) : qst :=
  mk_qst (qc s) false false false (qtaken s) (qbuf s) (qndisp s) (qncomp s) (qcons s)
         false (qabort s || failed) (qexc s || failed) (qdelivered s).

(* one pull of the input: Some (inl i) = item i; Some (inr tt) = the input raises; None = exhausted *)
Definition qpull1 (cf : qcfg) (taken : nat) : option (nat + unit) :=
  if match qifail cf with Some j => Nat.eqb j taken | None => false end then Some (inr tt)
  else if taken <? qN cf then Some (inl taken) else None.

(* tuple(islice(it, k)) starting at `taken`: (items, new taken, raised?) *)
Fixpoint qslice (cf : qcfg) (k taken : nat) : list nat * nat * bool :=
  match k with
  | 0 => ([], taken, false)
  | S k' =>
    match qpull1 cf taken with
    | Some (inr _) => ([], taken, true)
    | None => ([], taken, false)
    | Some (inl i) => let '(l, t, r) := qslice cf k' (S taken) in (i :: l, t, r)
    end
  end.

(* the next task of the (possibly batched) iterable: state with the task removed, and the task / failure / end *)
Definition qnext_task (s : qst) : qst * option (nat + unit) :=
  match qbuf s with
  | i :: r => (mk_qst (qc s) (qrunning s) (qalive s) (qsusp s) (qtaken s) r (qndisp s) (qncomp s) (qcons s)
                      (qiter s) (qabort s) (qexc s) (qdelivered s), Some (inl i))
  | [] =>
    if Nat.eqb (qbs (qc s)) 1 then
      match qpull1 (qc s) (qtaken s) with
      | Some (inl i) => (mk_qst (qc s) (qrunning s) (qalive s) (qsusp s) (S (qtaken s)) [] (qndisp s) (qncomp s) (qcons s)
                                (qiter s) (qabort s) (qexc s) (qdelivered s), Some (inl i))
      | Some (inr _) => (s, Some (inr tt))
      | None => (s, None)
      end
    else
      let '(l, t, r) := qslice (qc s) (qbs (qc s)) (qtaken s) in
      let s1 := mk_qst (qc s) (qrunning s) (qalive s) (qsusp s) t (tl l) (qndisp s) (qncomp s) (qcons s)
                       (qiter s) (qabort s) (qexc s) (qdelivered s) in
      if r then (mk_qst (qc s) (qrunning s) (qalive s) (qsusp s) t [] (qndisp s) (qncomp s) (qcons s)
                        (qiter s) (qabort s) (qexc s) (qdelivered s), Some (inr tt))   (* the slice is lost *)
      else match l with
           | i :: _ => (s1, Some (inl i))
           | [] => (s1, None)
           end
  end.

(* the generator is resumed (alive, suspended at `yield None` or at `yield res`) *)
Definition qresume (s : qst) : qst * qres :=
  let s0 := mk_qst (qc s) (qrunning s) (qalive s) false (qtaken s) (qbuf s) (qndisp s) (qncomp s)
                   (if qsusp s then S (qcons s) else qcons s) (qiter s) (qabort s) (qexc s) (qdelivered s) in
  match qnext_task s0 with
  | (s1, None) => (qfinish s1 false, QStop)
  | (s1, Some (inr _)) => (qfinish s1 true, QRaise ErrIter)
  | (s1, Some (inl i)) =>
    let s2 := mk_qst (qc s1) (qrunning s1) (qalive s1) false (qtaken s1) (qbuf s1) (S (qndisp s1)) (qncomp s1) (qcons s1)
                     (qiter s1) (qabort s1) (qexc s1) (qdelivered s1) in
    if match qtfail (qc s) with Some j => Nat.eqb j i | None => false end
    then (qfinish s2 true, QRaise (ErrTask i))
    else (mk_qst (qc s2) (qrunning s2) true true (qtaken s2) (qbuf s2) (qndisp s2) (S (qncomp s2)) (qcons s2)
                 (qiter s2) (qabort s2) (qexc s2) (qdelivered s2 ++ [i]), QYield i)
  end.

(* list(output): resume until the generator ends *)
Fixpoint qdrain (fuel : nat) (s : qst) : qst * option err :=
  match fuel with
  | 0 => (s, Some ErrAttr)          (* out of fuel: excluded by the theorems (fuel = N + 1 suffices) *)
  | S f =>
    match qresume s with
    | (s1, QYield _) => qdrain f s1
    | (s1, QRaise e) => (s1, Some e)
    | (s1, QStop) => (s1, None)
    end
  end.

Inductive qev := QCall (cf : qcfg) | QNext | QClose.
Inductive qobs := QReturned (l : list nat) | QVal (v : nat) | QStopped | QRaised (e : err) | QGen.

Definition qstart (cf : qcfg) : qst :=
  mk_qst cf true true false 0 [] 0 0 0 true false false [].

Definition qstep (s : qst) (e : qev) : qst * list qobs :=
  match e with
  | QCall cf =>
    if qrunning s then (s, [QRaised ErrRuntime])
    else if qgen cf then (qstart cf, [QGen])
    else match qdrain (S (qN cf)) (qstart cf) with
         | (s1, None) => (s1, [QReturned (qdelivered s1)])
         | (s1, Some e) => (s1, [QRaised e])
         end
  | QNext =>
    if qalive s then
      match qresume s with
      | (s1, QYield v) => (s1, [QVal v])
      | (s1, QRaise e) => (s1, [QRaised e])
      | (s1, QStop) => (s1, [QStopped])
      end
    else (s, [QStopped])
  | QClose =>
    if qalive s then (qfinish s true, [QStopped]) else (s, [QStopped])
  end.

Fixpoint qrun (s : qst) (es : list qev) : qst * list (list qobs) :=
  match es with
  | [] => (s, [])
  | e :: r => let '(s1, o) := qstep s e in
              let '(s2, os) := qrun s1 r in (s2, o :: os)
  end.

(* what the correspondence check compares after every event *)
Definition qsnap (s : qst) : list nat :=
  [qtaken s; qndisp s; qncomp s; qcons s; Nat.b2n (qiter s); Nat.b2n (qabort s); Nat.b2n (qexc s); Nat.b2n (qrunning s)].

Definition qobs_code (o : qobs) : list nat :=
  match o with
  | QReturned l => 0 :: l
  | QVal v => [1; v]
  | QStopped => [2]
  | QRaised (ErrTask i) => [3; 0; i]
  | QRaised ErrIter => [3; 1; 0]
  | QRaised ErrTimeout => [3; 2; 0]
  | QRaised ErrRuntime => [3; 3; 0]
  | QRaised ErrAttr => [3; 4; 0]
  | QRaised ErrBackend => [3; 5; 0]
  | QGen => [4]
  end.

Fixpoint qrun_show (s : qst) (es : list qev) : list (list (list nat) * list nat) :=
  match es with
  | [] => []
  | e :: r => let '(s1, o) := qstep s e in (map qobs_code o, qsnap s1) :: qrun_show s1 r
  end.
