(* M4 over SEVERAL cache locations: one M4 state (Model/MemoryCore.v) per location, driven in lock step.
   Executable definitions only.

   What the locations share is the process: the source files, the live function objects and _FUNCTION_HASHES.
   Since fix F45 the entry of a function in _FUNCTION_HASHES carries the location of the store it was validated
   against (MemorizedFunc._hash_func returns (id(func), hash(func), hash(code), store_backend.location)) and the
   fast path of _check_previous_func_code compares the whole tuple: a function vouched for at location L is
   "in the table" of location L only.  In the product:
     - [table] of the state of location L = the functions whose entry carries location L;
     - when a step at L (re)writes the entry of function k (_write_func_code: first write, changed code,
       clear()), every OTHER location forgets k (event Forget (Some k));
     - Memory.clear() at L empties _FUNCTION_HASHES for everybody (Forget None elsewhere);
     - Define (a new function object) and NewProcess happen everywhere.
   The monitors of the admissibility predicate run in lock step with the states. *)
From Coq Require Import List Bool Arith.
Require Import JV.Base.PyPrelude JV.Model.MemoryCore.
Import ListNotations.

Section MemoryLoc.
  Context {call key_input digest binding kbinding value src : Type}.
  Variable C : cfg call key_input digest binding kbinding value src.
  (* ALIASES.  Several Memory objects may name ONE directory under different spellings (absolute / relative path, a
     trailing "/.", a symlink): they share the store -- one M4 state -- but the location recorded in a
     _FUNCTION_HASHES entry is the STRING, so each spelling is its own tag.  A function object reached through
     spelling a is a model object of its own; [sibs i] lists the model objects that are the same Python function as
     i (i included): when the entry of that function is (re)written through one of them, all the others -- at this
     location and elsewhere -- are no longer vouched for. *)
  Variable sibs : nat -> list nat.

  Notation state := (state call digest value src).
  Notation event := (event call digest).
  Notation outcome := (outcome value).
  Notation mon := (mon src).

  Inductive mevent :=
  | At (L : nat) (e : event)       (* an event through the Memory / wrapper of cache location L *)
  | Everywhere (e : event).        (* Define k, NewProcess *)

  (* the function whose code check a step runs *)
  Definition target (e : event) : option nat :=
    match e with
    | Call k _ _ | Shelve k _ _ | Check k _ _ | ClearFunc k => Some k
    | _ => None
    end.

  Definition gained (st st' : state) (k : nat) : bool := mem_nat k (table st') && negb (mem_nat k (table st)).

  (* what the OTHER locations must forget after the step st --e--> st' at one location *)
  Definition forgets (st st' : state) (e : event) : list event :=
    match e with
    | ClearMem => [Forget None]
    | _ => match target e with
           | Some k => if gained st st' k then map (fun j => Forget (Some j)) (sibs k) else []
           | None => []
           end
    end.

  (* ... and what THIS location forgets: the other spellings of the same function *)
  Definition forgets_here (st st' : state) (e : event) : list event :=
    match target e with
    | Some k => if gained st st' k
                then map (fun j => Forget (Some j)) (filter (fun j => negb (Nat.eqb j k)) (sibs k)) else []
    | None => []
    end.

  Definition slot : Type := state * option mon.     (* None = the history stopped being admissible at this location *)

  Definition slot_step (s : slot) (e : event) : outcome * slot :=
    let (o, st') := step C (fst s) e in
    (o, (st', match snd s with Some m => adm_step C m e | None => None end)).

  Definition slot_apply (s : slot) (es : list event) : slot :=
    fold_left (fun s e => snd (slot_step s e)) es s.

  Fixpoint update_others (L : nat) (es : list event) (i : nat) (l : list slot) : list slot :=
    match l with
    | [] => []
    | s :: t => (if Nat.eqb i L then s else slot_apply s es) :: update_others L es (S i) t
    end.

  Fixpoint set_nth (L : nat) (x : slot) (l : list slot) : list slot :=
    match l, L with
    | [], _ => []
    | _ :: t, O => x :: t
    | s :: t, S n => s :: set_nth n x t
    end.

  Definition mstep (sl : list slot) (me : mevent) : outcome * list slot :=
    match me with
    | Everywhere e => (ODone, map (fun s => snd (slot_step s e)) sl)
    | At L e =>
        match nth_error sl L with
        | None => (OSkip, sl)
        | Some s =>
            let (o, s') := slot_step s e in
            let s'' := slot_apply s' (forgets_here (fst s) (fst s') e) in
            (o, update_others L (forgets (fst s) (fst s') e) 0 (set_nth L s'' sl))
        end
    end.

  Fixpoint mrun (sl : list slot) (h : list mevent) : list outcome * list slot :=
    match h with
    | [] => ([], sl)
    | me :: t => let (o, sl') := mstep sl me in let (os, sl'') := mrun sl' t in (o :: os, sl'')
    end.

  Definition minit (n : nat) : list slot := repeat (init, Some (mon0 (src:=src))) n.

  Definition moutcomes (n : nat) (h : list mevent) : list outcome := fst (mrun (minit n) h).

  (* admissible at every location *)
  Definition madmissible (n : nat) (h : list mevent) : bool :=
    forallb (fun s : slot => match snd s with Some _ => true | None => false end) (snd (mrun (minit n) h)).

End MemoryLoc.

Arguments At {call digest} L e.
Arguments Everywhere {call digest} e.
