(* M10b -- the client side of C20: joblib/_memmapping_reducer.py TemporaryResourcesManager
   (register_new_context, register_folder_finalizer, _clean_temporary_resources), the file life-cycle
   of ArrayMemmapForwardReducer.__call__, joblib/disk.py delete_folder, composed with the tracker
   loop of Model/ResTracker.v through a FIFO pipe.  Executable definitions only.

   A world is: the tracker's registry, the requests written to the pipe and not read yet, the
   folders/files "of ours" on disk, and the manager's two dictionaries (_cached_temp_folders,
   _finalizers).  Contexts and files are numbers; their path names are [fold_name c] and
   [file_name c f] (injective).  They stand for ABSOLUTE path names: the tracker is another process
   and resolves a name with its own working directory, so a key denotes one place on disk only if
   it is absolute (os.path.abspath in _get_temp_dir); the correspondence records every name the
   real client hands to register/unregister/maybe_unlink and requires it to be absolute, also when
   temp_folder / JOBLIB_TEMP_FOLDER is relative and the client has changed its cwd since the tracker
   was started.  Events are fine grained so that "killed at any point" is
   "after any prefix of events"; every event also yields the list of externally observable
   [action]s it performs, IN THE ORDER the code performs them (this order is what the harness
   compares with the instrumented real calls).

   _clean_temporary_resources(context_id=c, force, allow_non_empty) is
       ECleanFiles c force ; ETracker^n ; ECleanFolder c (allow_non_empty || force)
   (delete_folder re-lists the directory up to RM_SUBDIRS_N_RETRY times while the tracker
   goes on reading; the outcome is that of the last attempt). *)
From Coq Require Import ZArith List Bool.
Require Import JV.Model.ResTracker.
Import ListNotations.
Open Scope Z_scope.

Definition fold_name (c : nat) : bytes := [Z.of_nat c].
Definition file_name (c f : nat) : bytes := [Z.of_nat c; 47; Z.of_nat f].

Record world := {
  w_reg : registry;              (* tracker process *)
  w_pipe : list request;         (* written by clients, not yet read by the tracker *)
  w_folders : list nat;          (* temporary folders on disk *)
  w_files : list (nat * nat);    (* files on disk: (context, file) *)
  w_cached : list nat;           (* manager._cached_temp_folders *)
  w_final : list nat             (* manager._finalizers: live atexit finalizers *)
}.

Definition world0 : world :=
  {| w_reg := init; w_pipe := []; w_folders := []; w_files := []; w_cached := []; w_final := [] |}.

Definition mem (c : nat) (l : list nat) : bool := existsb (Nat.eqb c) l.
Definition mem2 (x : nat * nat) (l : list (nat * nat)) : bool :=
  existsb (fun y => Nat.eqb (fst x) (fst y) && Nat.eqb (snd x) (snd y)) l.
Definition remove_c (c : nat) (l : list nat) : list nat := filter (fun x => negb (Nat.eqb c x)) l.

(* effect of one clean-up call of the tracker on the disk: os.unlink / shutil.rmtree *)
Definition fs_cleanup (d : deletion) (fo : list nat) (fi : list (nat * nat)) : list nat * list (nat * nat) :=
  match fst d with
  | File => (fo, filter (fun x => negb (beq (file_name (fst x) (snd x)) (snd d))) fi)
  | Folder => (filter (fun c => negb (beq (fold_name c) (snd d))) fo,
               filter (fun x => negb (beq (fold_name (fst x)) (snd d))) fi)
  | Semlock => (fo, fi)
  end.

Fixpoint fs_cleanups (ds : list deletion) (fo : list nat) (fi : list (nat * nat)) : list nat * list (nat * nat) :=
  match ds with
  | [] => (fo, fi)
  | d :: t => let '(fo', fi') := fs_cleanup d fo fi in fs_cleanups t fo' fi'
  end.

Inductive action :=
| ASend (q : request)                 (* resource_tracker.register / unregister / maybe_unlink *)
| AMkdir (c : nat)
| AWrite (c f : nat)
| ADeleteFolder (c : nat) (ok : bool). (* delete_folder(...) returned / raised OSError *)

Inductive event :=
| ENewContext (c : nat)               (* manager.register_new_context / set_current_context *)
| EMkdir (c : nat)                    (* reducer: os.makedirs(self._temp_folder) *)
| ERegFile (c f : nat)                (* reducer: resource_tracker.register(filename, "file") *)
| EWrite (c f : nat)                  (* reducer: dump(a, filename) *)
| EUnlinkFile (c f : nat)             (* finalizer of a memmap, in any process: maybe_unlink *)
| ECleanFiles (c : nat) (force : bool)          (* _clean_temporary_resources, the for loop *)
| ECleanFolder (c : nat) (allow : bool)         (* ... the try block *)
| EDeleteOnly (c : nat) (allow : bool)          (* ... killed right after delete_folder *)
| EAtexit (c : nat)                   (* interpreter exit: the _cleanup closure of register_folder_finalizer *)
| ETracker.                           (* the tracker reads and handles one request *)

Definition send (w : world) (qs : list request) : world :=
  {| w_reg := w_reg w; w_pipe := w_pipe w ++ qs; w_folders := w_folders w; w_files := w_files w;
     w_cached := w_cached w; w_final := w_final w |}.

Definition files_in (c : nat) (fi : list (nat * nat)) : list (nat * nat) :=
  filter (fun x => Nat.eqb (fst x) c) fi.

(* delete_folder(folder, allow_non_empty): None = the folder is not there (nothing to do, no error),
   Some true = removed, Some false = OSError (not empty) *)
Definition delete_folder (w : world) (c : nat) (allow : bool) : option bool :=
  if mem c (w_folders w) then
    match files_in c (w_files w) with
    | [] => Some true
    | _ => Some allow
    end
  else None.

Definition rm_folder (w : world) (c : nat) : world :=
  {| w_reg := w_reg w; w_pipe := w_pipe w; w_folders := remove_c c (w_folders w);
     w_files := filter (fun x => negb (Nat.eqb (fst x) c)) (w_files w);
     w_cached := w_cached w; w_final := w_final w |}.

(* guard of _clean_temporary_resources: temp_folder = cached.get(c); temp_folder and exists *)
Definition clean_guard (w : world) (c : nat) : bool := mem c (w_cached w) && mem c (w_folders w).

Definition ev_step (w : world) (e : event) : world * list action :=
  match e with
  | ENewContext c =>
      if mem c (w_cached w) then (w, [])
      else (* register_folder_finalizer: register(folder); atexit.register(_cleanup); then cache *)
        let w1 := send w [QRegister Folder (fold_name c)] in
        ({| w_reg := w_reg w1; w_pipe := w_pipe w1; w_folders := w_folders w1; w_files := w_files w1;
            w_cached := c :: w_cached w1; w_final := c :: w_final w1 |},
         [ASend (QRegister Folder (fold_name c))])
  | EMkdir c =>
      if mem c (w_cached w) then       (* resolve_temp_folder_name() needs the context *)
        ({| w_reg := w_reg w; w_pipe := w_pipe w;
            w_folders := if mem c (w_folders w) then w_folders w else c :: w_folders w;
            w_files := w_files w; w_cached := w_cached w; w_final := w_final w |}, [AMkdir c])
      else (w, [])
  | ERegFile c f => (send w [QRegister File (file_name c f)], [ASend (QRegister File (file_name c f))])
  | EWrite c f =>
      if mem c (w_folders w) then
        ({| w_reg := w_reg w; w_pipe := w_pipe w; w_folders := w_folders w;
            w_files := if mem2 (c, f) (w_files w) then w_files w else (c, f) :: w_files w;
            w_cached := w_cached w; w_final := w_final w |}, [AWrite c f])
      else (w, [])
  | EUnlinkFile c f => (send w [QMaybeUnlink File (file_name c f)], [ASend (QMaybeUnlink File (file_name c f))])
  | ECleanFiles c force =>
      if clean_guard w c then
        let qs := map (fun x => if force then QUnregister File (file_name (fst x) (snd x))
                                else QMaybeUnlink File (file_name (fst x) (snd x)))
                      (files_in c (w_files w)) in
        (send w qs, map ASend qs)
      else (w, [])
  | ECleanFolder c allow =>
      if clean_guard w c then
        match delete_folder w c allow with
        | Some false => (w, [ADeleteFolder c false])                       (* except OSError: pass *)
        | _ =>
            (* delete_folder; cached.pop; unregister(folder); finalizers.pop + atexit.unregister *)
            let w1 := send (rm_folder w c) [QUnregister Folder (fold_name c)] in
            ({| w_reg := w_reg w1; w_pipe := w_pipe w1; w_folders := w_folders w1; w_files := w_files w1;
                w_cached := remove_c c (w_cached w1); w_final := remove_c c (w_final w1) |},
             [ADeleteFolder c true; ASend (QUnregister Folder (fold_name c))])
        end
      else (w, [])
  | EDeleteOnly c allow =>
      if clean_guard w c then
        match delete_folder w c allow with
        | Some false => (w, [ADeleteFolder c false])
        | _ => (rm_folder w c, [ADeleteFolder c true])
        end
      else (w, [])
  | EAtexit c =>
      (* delete_folder(pool_subfolder, allow_non_empty=True); unregister(pool_subfolder, "folder").
         The manager is not used afterwards: its two dictionaries are ghost state from here on. *)
      if mem c (w_final w) then
        let w1 := send (rm_folder w c) [QUnregister Folder (fold_name c)] in
        ({| w_reg := w_reg w1; w_pipe := w_pipe w1; w_folders := w_folders w1; w_files := w_files w1;
            w_cached := remove_c c (w_cached w1); w_final := remove_c c (w_final w1) |},
         [ADeleteFolder c true; ASend (QUnregister Folder (fold_name c))])
      else (w, [])
  | ETracker =>
      match w_pipe w with
      | [] => (w, [])
      | q :: rest =>
          let o := step_req false (fun _ => false) (w_reg w) q in
          let '(fo, fi) := fs_cleanups (o_del o) (w_folders w) (w_files w) in
          ({| w_reg := o_reg o; w_pipe := rest; w_folders := fo; w_files := fi;
              w_cached := w_cached w; w_final := w_final w |}, [])
      end
  end.

Definition run_events (w : world) (evs : list event) : world :=
  fold_left (fun w e => fst (ev_step w e)) evs w.

Fixpoint actions_of (w : world) (evs : list event) : list (list action) :=
  match evs with
  | [] => []
  | e :: t => snd (ev_step w e) :: actions_of (fst (ev_step w e)) t
  end.

(* every client is gone (killed: no atexit finalizer runs): the tracker reads what is left in the
   pipe, gets EOF and runs its finally block *)
Fixpoint drain (r : registry) (qs : list request) (fo : list nat) (fi : list (nat * nat))
  : registry * (list nat * list (nat * nat)) :=
  match qs with
  | [] => (r, (fo, fi))
  | q :: rest =>
      let o := step_req false (fun _ => false) r q in
      let '(fo', fi') := fs_cleanups (o_del o) fo fi in
      drain (o_reg o) rest fo' fi'
  end.

Definition disk_after_kill (w : world) : list nat * list (nat * nat) :=
  let '(r, (fo, fi)) := drain (w_reg w) (w_pipe w) (w_folders w) (w_files w) in
  fs_cleanups (fst (finish false (fun _ => false) r)) fo fi.

(* normal interpreter exit: every live atexit finalizer runs, then the process is gone *)
Definition exit_normally (w : world) : world := fold_left (fun w c => fst (ev_step w (EAtexit c))) (w_final w) w.

(* the count of key k once the tracker will have read everything that is in the pipe *)
Definition pend (w : world) (k : key) : Z :=
  fold_left (fun c q => cnt_step k c q) (w_pipe w)
            (match lookup (w_reg w) k with None => 0 | Some c => c end).

(* ---- the same try block with the two statements swapped (unregister before delete_folder):
        NOT the code; used to show that the order matters *)
Definition ev_step_swapped (w : world) (e : event) : world * list action :=
  match e with
  | ECleanFolder c allow =>
      if clean_guard w c then
        let w0 := send w [QUnregister Folder (fold_name c)] in
        match delete_folder w0 c allow with
        | Some false => (w0, [ASend (QUnregister Folder (fold_name c)); ADeleteFolder c false])
        | _ =>
            let w1 := rm_folder w0 c in
            ({| w_reg := w_reg w1; w_pipe := w_pipe w1; w_folders := w_folders w1; w_files := w_files w1;
                w_cached := remove_c c (w_cached w1); w_final := remove_c c (w_final w1) |},
             [ASend (QUnregister Folder (fold_name c)); ADeleteFolder c true])
        end
      else (w, [])
  | _ => ev_step w e
  end.

Definition run_events_swapped (w : world) (evs : list event) : world :=
  fold_left (fun w e => fst (ev_step_swapped w e)) evs w.
