(* M7b -- layout arithmetic of the inline numpy array payload (joblib/numpy_pickle.py
   NumpyArrayWrapper.write_array / read_array / read_mmap, NumpyPickler._create_array_wrapper) and of
   the memmap reducer (joblib/_memmapping_reducer.py _reduce_memmap_backed / _strided_from_memmap).
   The padding / chunk / offset arithmetic itself is TRANSLATED from the live source into
   Gen/C19_Padding.v; this file adds what surrounds it (bytes written and read, index orders, numpy's
   byte_bounds) as executable definitions.  No proofs here. *)
From Coq Require Import ZArith List Bool.
Require Import JV.Base.PyPrelude JV.Gen.C03_Constants JV.Gen.C19_Padding.
Import ListNotations.
Open Scope Z_scope.

(* ------------------------------------------------------------------ header: padding byte + padding *)

(* hand model of the translated writer_padding, used by the correspondence check as a second route *)
Definition pad_model (A pos : Z) : Z := A - ((pos + 1) mod A).

(* int.to_bytes(n, length=1): OverflowError outside 0..255 *)
Definition to_byte (n : Z) : result Z :=
  if (0 <=? n) && (n <? 256) then Ok n else Raise (OtherError 2).

(* bytes written by write_array before the array data, the file handle being at `pos` *)
Definition header_bytes (A pos : Z) : result (list Z) :=
  bind (writer_padding A pos) (fun pad =>
  bind (to_byte pad) (fun b =>
  bind (writer_writes_padding pad) (fun w =>
  Ok (b :: (if w then repeat 255 (Z.to_nat pad) else []))))).

(* file.read(1) at position pos: the byte (int.from_bytes(b"") = 0 at EOF) and the new position *)
Definition read1 (file : list Z) (pos : Z) : Z * Z :=
  match nth_error file (Z.to_nat pos) with
  | Some b => (b, pos + 1)
  | None => (0, pos)
  end.

(* read_array: position of the file handle when the array data is read *)
Definition read_array_data_pos (file : list Z) (pos : Z) : result Z :=
  let '(b, pos1) := read1 file pos in
  bind (reader_skips b) (fun s => Ok (if s then Z.min (pos1 + b) (len file) else pos1)).

(* read_mmap: the offset handed to make_memmap *)
Definition read_mmap_offset (file : list Z) (pos : Z) : result Z :=
  let '(b, _) := read1 file pos in mmap_offset pos b.

(* _create_array_wrapper: order = 'F' iff f_contiguous and not c_contiguous;
   allow_mmap = not buffered (BinaryZlibFile) and not dtype.hasobject *)
Inductive order := OrdC | OrdF.
Definition order_of (f_contig c_contig : bool) : order := if f_contig && negb c_contig then OrdF else OrdC.
Definition allow_mmap (buffered hasobject : bool) : bool := negb buffered && negb hasobject.

(* ------------------------------------------------------------------ element orders *)

(* multiply.reduce(shape); 1 for a 0-d array *)
Definition count (shape : list nat) : nat := fold_right Nat.mul 1%nat shape.

(* linear position of an index vector in Fortran order (first index fastest) *)
Fixpoint f_index (shape idx : list nat) : nat :=
  match shape, idx with
  | n :: ns, i :: is' => (i + n * f_index ns is')%nat
  | _, _ => 0%nat
  end.

(* linear position in C order (last index fastest): Horner scheme, as reshape() addresses a flat buffer *)
Fixpoint c_index_acc (shape idx : list nat) (acc : nat) : nat :=
  match shape, idx with
  | n :: ns, i :: is' => c_index_acc ns is' (acc * n + i)%nat
  | _, _ => acc
  end.
Definition c_index (shape idx : list nat) : nat := c_index_acc shape idx 0%nat.

Fixpoint in_bounds (shape idx : list nat) : Prop :=
  match shape, idx with
  | [], [] => True
  | n :: ns, i :: is' => (i < n)%nat /\ in_bounds ns is'
  | _, _ => False
  end.

(* the index vectors in the order nditer(order='F') / nditer(order='C') visits them *)
Fixpoint f_enum (shape : list nat) : list (list nat) :=
  match shape with
  | [] => [[]]
  | n :: ns => flat_map (fun tl => map (fun i => i :: tl) (seq 0 n)) (f_enum ns)
  end.
Fixpoint c_enum (shape : list nat) : list (list nat) :=
  match shape with
  | [] => [[]]
  | n :: ns => flat_map (fun i => map (cons i) (c_enum ns)) (seq 0 n)
  end.

Section Elems.
  Variable T : Type.
  (* write_array: the elements in the order of the wrapper *)
  Definition write_elems (o : order) (shape : list nat) (elem : list nat -> T) : list T :=
    map elem (match o with OrdF => f_enum shape | OrdC => c_enum shape end).
  (* read_array: a flat buffer of `count` elements; order F: array.shape = shape[::-1]; array.transpose();
     order C: array.shape = shape *)
  Definition read_elem (o : order) (shape : list nat) (data : list T) (idx : list nat) (d : T) : T :=
    match o with
    | OrdF => nth (c_index (rev shape) (rev idx)) data d
    | OrdC => nth (c_index shape idx) data d
    end.
End Elems.
Arguments write_elems {T}.
Arguments read_elem {T}.

(* ------------------------------------------------------------------ chunked read loop *)

(* for i in range(0, count, max_read_count): (i, read_count, read_size) of every iteration *)
Fixpoint chunk_loop (fuel : nat) (mrc itemsize cnt i : Z) : result (list (Z * Z * Z)) :=
  match fuel with
  | O => if i <? cnt then Raise (OtherError 3) (* out of fuel *) else Ok []
  | S f =>
    if i <? cnt then
      bind (chunk_step mrc itemsize cnt i) (fun '(rc, rs) =>
      rmap (cons (i, rc, rs)) (chunk_loop f mrc itemsize cnt (i + mrc)))
    else Ok []
  end.
Definition chunks (buffer_size itemsize cnt : Z) : result (list (Z * Z * Z)) :=
  bind (max_read_count buffer_size itemsize) (fun mrc =>
  if mrc <=? 0 then Raise ValueError (* range() arg 3 must not be zero *)
  else chunk_loop (Z.to_nat cnt) mrc itemsize cnt 0).

(* successive exact reads (numpy_pickle_utils._read_bytes) of the given sizes from a stream *)
Fixpoint reads (sizes : list Z) (s : list Z) : list (list Z) :=
  match sizes with
  | [] => []
  | n :: t => firstn (Z.to_nat n) s :: reads t (skipn (Z.to_nat n) s)
  end.

(* ------------------------------------------------------------------ memmap-backed views *)

Definition dot (a b : list Z) : Z := fold_left (fun acc p => acc + fst p * snd p) (combine a b) 0.
Definition prodZ (l : list Z) : Z := fold_right Z.mul 1 l.

Fixpoint lin_c (shape idx : list Z) : Z :=
  match shape, idx with
  | _ :: ns, i :: is' => i * prodZ ns + lin_c ns is'
  | _, _ => 0
  end.
Fixpoint lin_f (shape idx : list Z) : Z :=
  match shape, idx with
  | n :: ns, i :: is' => i + n * lin_f ns is'
  | _, _ => 0
  end.
Fixpoint c_strides (shape : list Z) (isz : Z) : list Z :=
  match shape with
  | [] => []
  | _ :: ns => isz * prodZ ns :: c_strides ns isz
  end.
Fixpoint f_strides_from (acc : Z) (shape : list Z) : list Z :=
  match shape with
  | [] => []
  | n :: ns => acc :: f_strides_from (acc * n) ns
  end.
Definition f_strides (shape : list Z) (isz : Z) : list Z := f_strides_from isz shape.

Fixpoint in_boundsZ (shape idx : list Z) : Prop :=
  match shape, idx with
  | [], [] => True
  | n :: ns, i :: is' => 0 <= i < n /\ in_boundsZ ns is'
  | _, _ => False
  end.

(* a view `a` on a memmap `m`: address of a[0,..,0], shape, byte strides, item size, numpy's flags *)
Record view := { v_ptr : Z; v_shape : list Z; v_strides : list Z; v_isz : Z; v_c : bool; v_f : bool }.
(* the backing memmap: address of its first byte, its file offset (m.offset), m.flags.F_CONTIGUOUS *)
Record backing := { m_start : Z; m_offset : Z; m_f : bool }.

(* numpy.lib.array_utils.byte_bounds: __array_interface__['strides'] is None for a C-contiguous array *)
Definition byte_bounds (a : view) : Z * Z :=
  if v_c a then (v_ptr a, v_ptr a + prodZ (v_shape a) * v_isz a)
  else
    let '(lo, hi) := fold_left (fun '(lo, hi) '(n, st) =>
                        if st <? 0 then (lo + (n - 1) * st, hi) else (lo, hi + (n - 1) * st))
                      (combine (v_shape a) (v_strides a)) (v_ptr a, v_ptr a) in
    (lo, hi + v_isz a).

(* numpy's contiguity flags (relaxed strides: extents of 1 are ignored; an empty array is both) *)
Fixpoint is_c_contig (shape strides : list Z) (isz : Z) : bool :=
  match shape, strides with
  | [], [] => true
  | n :: ns, s :: ss => ((n =? 1) || (s =? isz * prodZ ns)) && is_c_contig ns ss isz
  | _, _ => false
  end.
Fixpoint is_f_contig_from (acc : Z) (shape strides : list Z) : bool :=
  match shape, strides with
  | [], [] => true
  | n :: ns, s :: ss => ((n =? 1) || (s =? acc)) && is_f_contig_from (acc * n) ns ss
  | _, _ => false
  end.
Definition np_c_contig (shape strides : list Z) (isz : Z) : bool :=
  existsb (Z.eqb 0) shape || is_c_contig shape strides isz.
Definition np_f_contig (shape strides : list Z) (isz : Z) : bool :=
  existsb (Z.eqb 0) shape || is_f_contig_from isz shape strides.

(* arguments _reduce_memmap_backed hands to _strided_from_memmap: offset, order, strides, total_buffer_len.
   The decision and the arithmetic are the TRANSLATED [reduce_args] (Gen/C19_Padding.v); byte_bounds feeds it. *)
Definition reduce_memmap (a : view) (m : backing) : result (Z * order * option (list Z) * option Z) :=
  let '(a_start, a_end) := byte_bounds a in
  bind (reduce_args a_start a_end (m_start m) (m_offset m) (v_isz a) (m_f m) (v_f a) (v_c a))
       (fun '(offset, o, st, total) =>
          Ok (offset, (if o =? 1 then OrdF else OrdC),
              match st with Some _ => Some (v_strides a) | None => None end, total)).

(* hand model of the same function, second route of the correspondence *)
Definition reduce_memmap_hand (a : view) (m : backing) : result (Z * order * option (list Z) * option Z) :=
  let '(a_start, a_end) := byte_bounds a in
  let offset := a_start - m_start m + m_offset m in
  let ord := if m_f m then OrdF else OrdC in
  if v_f a || v_c a then Ok (offset, (if v_f a && negb (v_c a) then OrdF else OrdC), None, None)
  else bind (py_floordiv (a_end - a_start) (v_isz a)) (fun total => Ok (offset, ord, Some (v_strides a), Some total)).

(* the rule the code had before finding F28 was fixed: a contiguous view was re-mapped with the order of
   the BACKING memmap *)
Definition reduce_memmap_old (a : view) (m : backing) : result (Z * order * option (list Z) * option Z) :=
  let '(a_start, a_end) := byte_bounds a in
  let offset := a_start - m_start m + m_offset m in
  let ord := if m_f m then OrdF else OrdC in
  if v_f a || v_c a then Ok (offset, ord, None, None)
  else bind (py_floordiv (a_end - a_start) (v_isz a)) (fun total => Ok (offset, ord, Some (v_strides a), Some total)).

(* which reduction an array takes on its way to / back from a worker
   (ArrayMemmapForwardReducer.__call__, reduce_array_memmap_backward); the threshold test is translated *)
Inductive route := RReduceBacked | RDumpTemp | RPickle.
(* `hasobject` is numpy's dtype.hasobject (an object field at ANY depth of a structured / sub-array dtype counts);
   `dtype_kind` is ord(dtype.kind) -- 'V' for every structured dtype, with or without object fields *)
(* `mmap_mode`: None = "disable memmapping" (the worker gets an in-memory copy), Some _ = the mode of the worker's view *)
Definition forward_route (has_backing hasobject : bool) (dtype_kind : Z) (max_nbytes mmap_mode : option Z) (nbytes : Z)
  : result route :=
  if has_backing then Ok RReduceBacked
  else bind (forward_memmaps hasobject dtype_kind max_nbytes mmap_mode nbytes)
            (fun b => Ok (if b then RDumpTemp else RPickle)).
Definition backward_route (has_backing is_joblib_temp : bool) : route :=
  if has_backing && negb is_joblib_temp then RReduceBacked else RPickle.

(* ------------------------------------------------------------------ array types and payload kinds *)

(* type(obj) as NumpyPickler.save sees it *)
Inductive arrtype := TNdarray | TMatrix | TMemmap | TSubclass.
(* save: `type(obj) in (np.ndarray, np.matrix, np.memmap)` -- other subclasses are pickled by numpy itself *)
Definition save_intercepts (t : arrtype) : bool := match t with TSubclass => false | _ => true end.
(* write_array / read_array: object arrays are pickled (protocol 2) right after the wrapper, no padding;
   everything else is the padded raw payload *)
Inductive payload := PPickle2 | PRaw.
Definition payload_kind (hasobject : bool) : payload := if hasobject then PPickle2 else PRaw.
(* NumpyArrayWrapper.read: read_mmap iff the unpickler has an mmap_mode and the wrapper allows it *)
Definition reads_via_mmap (unpickler_mmap allow : bool) : bool := unpickler_mmap && allow.
(* NumpyArrayWrapper.read, subclass handling:
     if hasattr(array, "__array_prepare__") and self.subclass not in (ndarray, memmap): rebuild the subclass
     else: return the array as read (an ndarray, or a memmap when read through read_mmap) *)
Definition loaded_type (t : arrtype) (has_array_prepare via_mmap : bool) : arrtype :=
  let base := if via_mmap then TMemmap else TNdarray in
  match t with
  | TMatrix | TSubclass => if has_array_prepare then t else base
  | TNdarray | TMemmap => base
  end.

(* file offset of element idx of the original view *)
Definition orig_elem_off (a : view) (m : backing) (idx : list Z) : Z :=
  m_offset m + (v_ptr a - m_start m) + dot idx (v_strides a).

(* file offset of element idx of what _strided_from_memmap rebuilds *)
Definition recon_elem_off (a : view) (r : Z * order * option (list Z) * option Z) (idx : list Z) : Z :=
  let '(offset, ord, strides, _) := r in
  match strides with
  | None => offset + v_isz a * (match ord with OrdC => lin_c (v_shape a) idx | OrdF => lin_f (v_shape a) idx end)
  | Some st => offset + dot idx st          (* as_strided(base, shape, strides): base[0] is at `offset` *)
  end.

(* byte range [lo, hi) of the file that the rebuilt base memmap covers *)
Definition recon_range (a : view) (r : Z * order * option (list Z) * option Z) : Z * Z :=
  let '(offset, _, _, total) := r in
  match total with
  | None => (offset, offset + prodZ (v_shape a) * v_isz a)
  | Some t => (offset, offset + t * v_isz a)
  end.
