(* Encoders used by the correspondence check to print M1 runs as lists of numbers. *)
From Coq Require Import List Bool Arith.
Require Import JV.Model.ParallelCore.
Import ListNotations.

Definition b2n (b : bool) : nat := if b then 1 else 0.
Definition err_code (e : err) : list nat :=
  match e with
  | ErrTask i => [0; i] | ErrIter => [1; 0] | ErrTimeout => [2; 0] | ErrRuntime => [3; 0] | ErrAttr => [4; 0] | ErrBackend => [5; 0]
  end.
Definition obs_code (o : obs) : list nat :=
  match o with Val v => [0; v] | Stop => [1] | Raised e => 2 :: err_code e end.

Definition snap (s : st) : list nat :=
  [taken s; n_disp s; n_comp s; length (jobs s); b2n (iterating s); b2n (aborting s);
   length (ready s); b2n (running s); b2n (exception s); length (delivered s)].

(* per event: observations, snapshot, batches submitted so far by the current call *)
Fixpoint run_show (g : bool) (s : st) (es : list ev) : list (list (list nat) * list nat * list (list nat)) :=
  match es with
  | [] => []
  | e :: r => let '(s1, o) := step g s e in (map obs_code o, snap s1, submitted s1) :: run_show g s1 r
  end.
