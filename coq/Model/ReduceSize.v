(* Hand-written model of StoreBackendMixin._get_items_to_delete (joblib/_store_backends.py)
   and of the declarative specification it is compared with.  Executable definitions only. *)
From Coq Require Import ZArith List Bool.
Require Import JV.Base.PyPrelude.
Import ListNotations.
Open Scope Z_scope.

Section Sel.
Variables (to_del_size to_del_items : Z) (deadline : option Z).

Definition stop_cond (size_so_far items_so_far : Z) (it : item) : bool :=
  (to_del_size <=? size_so_far) && (to_del_items <=? items_so_far) &&
  match deadline with None => true | Some d => d <? iatime it end.

Fixpoint sel_loop (l : list item) (sz n : Z) : list item :=
  match l with
  | [] => []
  | it :: tl => if stop_cond sz n it then [] else it :: sel_loop tl (sz + isize it) (n + 1)
  end.
End Sel.

Definition total (l : list item) : Z := sum_map isize l.

Definition to_delete_size (bl : option Z) (l : list item) : Z :=
  match bl with None => 0 | Some b => total l - b end.
Definition to_delete_items (il : option Z) (l : list item) : Z :=
  match il with None => 0 | Some n => len l - n end.
Definition deadline_of (now : Z) (al : option Z) : option Z :=
  match al with None => None | Some a => Some (now - a) end.

(* the list the method returns, for a non-empty store and a valid age limit *)
Definition select (now : Z) (l : list item) (bl il al : option Z) : list item :=
  sel_loop (to_delete_size bl l) (to_delete_items il l) (deadline_of now al) (sort_by iatime l) 0 0.

Definition items_to_delete_model (now : Z) (l : list item) (bl il al : option Z) : result (list item) :=
  match l with
  | [] => Ok []
  | _ => match al with
         | Some a => if a <? 0 then Raise ValueError else Ok (select now l bl il al)
         | None => Ok (select now l bl il al)
         end
  end.

(* boolean form of "the remaining items satisfy every limit", used by the correspondence
   oracle and, as a Prop, by the theorems *)
Definition limits_okb (now : Z) (bl il al : option Z) (rest : list item) : bool :=
  match bl with None => true | Some b => total rest <=? b end &&
  match il with None => true | Some n => len rest <=? n end &&
  match al with None => true | Some a => forallb (fun i => now - a <? iatime i) rest end.

(* declarative specification: the shortest prefix of the stably sorted list whose removal
   satisfies the limits (search over all prefix lengths) *)
Fixpoint spec_search (now : Z) (bl il al : option Z) (pre_rev rest : list item) : list item :=
  if limits_okb now bl il al rest then rev pre_rev
  else match rest with
       | [] => rev pre_rev
       | x :: t => spec_search now bl il al (x :: pre_rev) t
       end.
Definition spec_select (now : Z) (l : list item) (bl il al : option Z) : list item :=
  spec_search now bl il al [] (sort_by iatime l).

(* disk.memstr_to_bytes on integer mantissas: '<digits><K|M|G>' *)
Definition memstr_unit (u : Z) : option Z :=
  if u =? 75 then Some 1024 else if u =? 77 then Some (1024 * 1024)
  else if u =? 71 then Some (1024 * 1024 * 1024) else None.
Definition memstr_to_bytes_int (mantissa : Z) (unit_char : Z) : result Z :=
  match memstr_unit unit_char with Some k => Ok (k * mantissa) | None => Raise ValueError end.
(* decimal mantissas '<digits>.<digits><K|M|G>' = num / den with den a power of ten:
   int(units * float(mantissa)) truncates; exact rational arithmetic (the harness only generates
   mantissas with at most three decimals, for which binary floating point gives the same integer) *)
Definition memstr_to_bytes_dec (num den : Z) (unit_char : Z) : result Z :=
  match memstr_unit unit_char with Some k => Ok (k * num / den) | None => Raise ValueError end.
