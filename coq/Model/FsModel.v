(* M5 -- the file system seen by joblib.Memory and the Memory workloads as programs over it.
   Code modelled (statement by statement, see design.d/C05.md for the line map):
     joblib/_store_backends.py  StoreBackendMixin.load_item/dump_item/clear_item/contains_item/
                                get_metadata/store_metadata/clear_path/store_cached_func_code/
                                get_cached_func_code/enforce_store_limits/_concurrency_safe_write,
                                concurrency_safe_write, FileSystemStoreBackend.clear_location/
                                create_location/get_items/configure
     joblib/memory.py           MemorizedFunc.__init__/_is_in_cache_and_valid/_cached_call/
                                _check_previous_func_code/_write_func_code/clear/_call/_after_call/
                                _persist_input, MemorizedResult.get, Memory.__init__/clear/reduce_size
     joblib/disk.py             mkdirp, rm_subdirs, delete_folder
     joblib/backports.py        concurrency_safe_rename (= os.replace)
     stdlib                     os.makedirs, shutil.rmtree (path based branch), os.walk
   Executable definitions only; proofs are in Proofs/FsModel*.v. *)
From Coq Require Import ZArith List Bool.
Require Import JV.Base.PyPrelude.
Import ListNotations.
Open Scope Z_scope.

(* ------------------------------------------------------------------ paths *)
(* The cache directory has a fixed shape; [k] is the argument hash (args_id), [t] identifies the
   writer: the suffix ".thread-<id>-pid-<pid>" of concurrency_safe_write. *)
Inductive path :=
| PLoc                 (* <location>                                  *)
| PGit                 (* <location>/.gitignore                       *)
| PRoot                (* <location>/joblib                           *)
| PMod                 (* <location>/joblib/<module>                  *)
| PFunc                (* <location>/joblib/<module>/<func>           *)
| PCode                (* .../<func>/func_code.py                     *)
| PEntry (k : Z)       (* .../<func>/<args_id>                        *)
| POut (k : Z)         (* .../<args_id>/output.pkl                    *)
| PMeta (k : Z)        (* .../<args_id>/metadata.json                 *)
| POutT (k t : Z)      (* .../<args_id>/output.pkl.thread-..-pid-..   *)
| PMetaT (k t : Z).    (* .../<args_id>/metadata.json.thread-..-pid-..*)

(* the writer id: concurrency_safe_write's suffix ".thread-<id(current_thread())>-pid-<getpid()>";
   a thread id is an address, below 2^64 *)
Definition writer_id (pid th : Z) : Z := pid * 18446744073709551616 + th.

Definition path_eqb (a b : path) : bool :=
  match a, b with
  | PLoc, PLoc | PGit, PGit | PRoot, PRoot | PMod, PMod | PFunc, PFunc | PCode, PCode => true
  | PEntry k, PEntry k' | POut k, POut k' | PMeta k, PMeta k' => k =? k'
  | POutT k t, POutT k' t' | PMetaT k t, PMetaT k' t' => (k =? k') && (t =? t')
  | _, _ => false
  end.

Definition parent (p : path) : option path :=
  match p with
  | PLoc => None
  | PGit | PRoot => Some PLoc
  | PMod => Some PRoot
  | PFunc => Some PMod
  | PCode => Some PFunc
  | PEntry _ => Some PFunc
  | POut k | PMeta k | POutT k _ | PMetaT k _ => Some (PEntry k)
  end.

Definition is_dir (p : path) : bool :=
  match p with PLoc | PRoot | PMod | PFunc | PEntry _ => true | _ => false end.

Definition bytes := list Z.

(* a file system: the existing paths with their content ([] for directories), in directory
   (creation) order -- the order os.scandir returns them in *)
Definition fs := list (path * bytes).

Fixpoint lookup (p : path) (s : fs) : option bytes :=
  match s with
  | [] => None
  | (q, b) :: tl => if path_eqb p q then Some b else lookup p tl
  end.

Definition present (p : path) (s : fs) : bool :=
  match lookup p s with Some _ => true | None => false end.

(* replace in place, or append (a new directory entry comes last) *)
Fixpoint set (p : path) (b : bytes) (s : fs) : fs :=
  match s with
  | [] => [(p, b)]
  | (q, c) :: tl => if path_eqb p q then (q, b) :: tl else (q, c) :: set p b tl
  end.

Fixpoint remove (p : path) (s : fs) : fs :=
  match s with
  | [] => []
  | (q, c) :: tl => if path_eqb p q then remove p tl else (q, c) :: remove p tl
  end.

Definition is_child (p q : path) : bool :=
  match parent q with Some h => path_eqb h p | None => false end.

Definition children (p : path) (s : fs) : list path :=
  filter (is_child p) (map fst s).

Definition parent_present (p : path) (s : fs) : bool :=
  match parent p with Some h => present h s | None => true end.

(* ------------------------------------------------------------- operations *)
Inductive err := ENOENT | EEXIST | ENOTEMPTY | ENOTDIR.

Inductive res :=
| ROk
| RErr (e : err)
| RBytes (b : bytes)
| RNames (l : list path).

Inductive fsop :=
| Stat (p : path)              (* os.stat / os.lstat: exists, isdir, islink, getatime, getsize *)
| Mkdir (p : path)
| Creat (p : path)             (* open(p, 'wb'): O_CREAT | O_TRUNC *)
| Write (p : path) (b : bytes) (* the data written through that handle, from offset 0 *)
| ReadAll (p : path)           (* open(p, 'rb') and read *)
| Rename (src dst : path)      (* os.replace *)
| Unlink (p : path)
| Rmdir (p : path)
| ListDir (p : path).          (* os.listdir / os.scandir *)

Definition is_mut (o : fsop) : bool :=
  match o with Stat _ | ReadAll _ | ListDir _ => false | _ => true end.

(* writing [b] at offset 0 over the old content *)
Definition overlay (b old : bytes) : bytes := b ++ skipn (length b) old.

Definition exec (o : fsop) (s : fs) : res * fs :=
  match o with
  | Stat p => (if present p s then ROk else RErr ENOENT, s)
  | Mkdir p =>
      if present p s then (RErr EEXIST, s)
      else if parent_present p s then (ROk, set p [] s) else (RErr ENOENT, s)
  | Creat p =>
      if parent_present p s then (ROk, set p [] s) else (RErr ENOENT, s)
  | Write p b =>
      match lookup p s with
      | Some old => (ROk, set p (overlay b old) s)
      | None => (ROk, s)            (* the inode was unlinked: the data goes nowhere visible *)
      end
  | ReadAll p =>
      match lookup p s with Some b => (RBytes b, s) | None => (RErr ENOENT, s) end
  | Rename src dst =>
      match lookup src s with
      | None => (RErr ENOENT, s)
      | Some b => if parent_present dst s then (ROk, set dst b (remove src s)) else (RErr ENOENT, s)
      end
  | Unlink p =>
      if present p s then (ROk, remove p s) else (RErr ENOENT, s)
  | Rmdir p =>
      if negb (is_dir p) then (RErr ENOTDIR, s)
      else if present p s then
        match children p s with [] => (ROk, remove p s) | _ => (RErr ENOTEMPTY, s) end
      else (RErr ENOENT, s)
  | ListDir p =>
      if present p s then (RNames (children p s), s) else (RErr ENOENT, s)
  end.

(* ---------------------------------------------------------------- programs *)
Inductive prog (A : Type) :=
| Ret (a : A)
| Op (o : fsop) (k : res -> prog A).
Arguments Ret {A} a.
Arguments Op {A} o k.

Fixpoint pbind {A B} (p : prog A) (f : A -> prog B) : prog B :=
  match p with
  | Ret a => f a
  | Op o k => Op o (fun r => pbind (k r) f)
  end.

(* exception-propagating bind *)
Definition ebind {A B} (p : prog (result A)) (f : A -> prog (result B)) : prog (result B) :=
  pbind p (fun r => match r with Ok a => f a | Raise e => Ret (Raise e) end).

Fixpoint run {A} (p : prog A) (s : fs) : A * fs :=
  match p with
  | Ret a => (a, s)
  | Op o k => let (r, s') := exec o s in run (k r) s'
  end.

Fixpoint trace {A} (p : prog A) (s : fs) : list (fsop * res) :=
  match p with
  | Ret _ => []
  | Op o k => let (r, s') := exec o s in (o, r) :: trace (k r) s'
  end.

(* process death before the [n]-th mutating operation; if that operation is a write and
   [torn = Some j], its first [j] bytes still reach the file *)
Fixpoint crash_run {A} (p : prog A) (n : nat) (torn : option nat) (s : fs) : fs :=
  match p with
  | Ret _ => s
  | Op o k =>
      if is_mut o then
        match n with
        | O => match o, torn with
               | Write q b, Some j => snd (exec (Write q (firstn j b)) s)
               | _, _ => s
               end
        | S n' => let (r, s') := exec o s in crash_run (k r) n' torn s'
        end
      else let (r, s') := exec o s in crash_run (k r) n torn s'
  end.

Definition is_ok (r : res) : bool := match r with RErr _ => false | _ => true end.

Definition exn_of (e : err) : exn :=
  match e with ENOENT => FileNotFoundError | EEXIST => OtherError 17 | ENOTEMPTY => OSError | ENOTDIR => OtherError 20 end.

Definition is_eexist (e : exn) : bool := match e with OtherError 17 => true | _ => false end.

Definition op_unit (o : fsop) : prog (result unit) :=
  Op o (fun r => Ret (match r with RErr e => Raise (exn_of e) | _ => Ok tt end)).

(* os.makedirs(p) (exist_ok=False); [d] bounds the recursion (path depth) *)
Fixpoint makedirs (d : nat) (p : path) : prog (result unit) :=
  match parent p with
  | None => op_unit (Mkdir p)
  | Some h =>
      Op (Stat h) (fun r =>
        if is_ok r then op_unit (Mkdir p)
        else match d with
             | O => op_unit (Mkdir p)
             | S d' => pbind (makedirs d' h) (fun r1 =>
                         match r1 with
                         | Ok _ => op_unit (Mkdir p)
                         | Raise e => if is_eexist e then op_unit (Mkdir p) else Ret (Raise e)
                         end)
             end)
  end.

(* disk.mkdirp: EEXIST is swallowed *)
Definition mkdirp (p : path) : prog (result unit) :=
  pbind (makedirs 5 p) (fun r =>
    Ret (match r with Raise e => if is_eexist e then Ok tt else Raise e | Ok _ => Ok tt end)).

(* shutil._rmtree_unsafe(p, onexc); [strict] = not ignore_errors; [d] bounds the depth.
   The directory type of an entry comes from the scandir result (d_type), here from the path. *)
Fixpoint rm_entries (rec : path -> prog (result unit)) (strict : bool) (l : list path) : prog (result unit) :=
  match l with
  | [] => Ret (Ok tt)
  | q :: tl =>
      pbind (if is_dir q then rec q
             else Op (Unlink q) (fun r => Ret (match r with RErr e => Raise (exn_of e) | _ => Ok tt end)))
            (fun r => match r with
                      | Raise e => if strict then Ret (Raise e) else rm_entries rec strict tl
                      | Ok _ => rm_entries rec strict tl
                      end)
  end.

Fixpoint rmtree_unsafe (d : nat) (strict : bool) (p : path) : prog (result unit) :=
  Op (ListDir p) (fun r =>
    let rec := match d with O => fun _ => Ret (Ok tt) | S d' => rmtree_unsafe d' strict end in
    let rmdir := Op (Rmdir p) (fun r2 => Ret (match r2 with
                                              | RErr e => if strict then Raise (exn_of e) else Ok tt
                                              | _ => Ok tt end)) in
    match r with
    | RNames l => pbind (rm_entries rec strict l) (fun r1 =>
                    match r1 with Raise e => Ret (Raise e) | Ok _ => rmdir end)
    | RErr e => if strict then Ret (Raise (exn_of e)) else rmdir
    | _ => rmdir
    end).

(* shutil.rmtree(p, ignore_errors): os.path.islink(p) (an lstat whose outcome does not matter:
   nothing here is a symlink), then the recursion *)
Definition rmtree (strict : bool) (p : path) : prog (result unit) :=
  Op (Stat p) (fun _ => rmtree_unsafe 4 strict p).

(* FileSystemStoreBackend.clear_location(p) for p <> location: rmtree(p, ignore_errors=True) *)
Definition rmtree_ign (p : path) : prog unit :=
  pbind (rmtree false p) (fun _ => Ret tt).

(* ------------------------------------------- the store methods as statement lists *)
(* The order of the backend primitives in dump_item / store_metadata / store_cached_func_code /
   _concurrency_safe_write is data: the lists below are compared (Proofs/FsModelGen.v) with the
   lists REGENERATED from joblib/_store_backends.py by harness/gen_c05.py (coq/Gen/T_store_ops.v). *)
Inductive pexp := EItem | EFunc | EOutput | EMetadata | ECode.
Inductive sstmt :=
| SEnsure (p : pexp)          (* if not self._item_exists(p): self.create_location(p) *)
| SCreate (p : pexp)          (* self.create_location(p) *)
| SSafeWrite (final : pexp)   (* self._concurrency_safe_write(obj, final, write_func) *)
| SWriteIfGiven (p : pexp).   (* if func_code is not None: with self._open_item(p, "wb") as f: f.write(...) *)
Inductive handler := HSwallow | HPropagate.
Inductive cstmt :=
| CWriteTmp                   (* tmp = concurrency_safe_write(obj, filename, write_func): open(tmp,'wb'), write *)
| CMove.                      (* self._move_item(tmp, filename) *)
Inductive tmpname := TmpThreadPid.   (* "{}.thread-{}-pid-{}".format(filename, id(current_thread()), getpid()) *)

Definition dump_item_src : list sstmt * handler := ([SEnsure EItem; SSafeWrite EOutput], HSwallow).
Definition store_metadata_src : list sstmt * handler := ([SCreate EItem; SSafeWrite EMetadata], HSwallow).
Definition store_code_src : list sstmt * handler := ([SEnsure EFunc; SWriteIfGiven ECode], HPropagate).
Definition csw_src : list cstmt := [CWriteTmp; CMove].
Definition tmpname_src : tmpname := TmpThreadPid.

(* _concurrency_safe_write: write_func(obj, tmp) then os.replace(tmp, final) *)
Fixpoint csw_interp (tmp final : path) (b : bytes) (k : result unit -> prog (result unit)) (l : list cstmt)
  : prog (result unit) :=
  match l with
  | [] => k (Ok tt)
  | CWriteTmp :: rest =>
      Op (Creat tmp) (fun r =>
        match r with
        | RErr e => k (Raise (exn_of e))
        | _ => Op (Write tmp b) (fun _ => csw_interp tmp final b k rest)
        end)
  | CMove :: rest =>
      Op (Rename tmp final) (fun r2 =>
        match r2 with RErr e => k (Raise (exn_of e)) | _ => csw_interp tmp final b k rest end)
  end.

Definition csw (tmp final : path) (b : bytes) (k : result unit -> prog (result unit)) : prog (result unit) :=
  csw_interp tmp final b k csw_src.

(* the three store methods are the interpretation of their statement lists (see above) *)
Definition path_of (k : Z) (p : pexp) : path :=
  match p with EItem => PEntry k | EFunc => PFunc | EOutput => POut k | EMetadata => PMeta k | ECode => PCode end.

Definition tmp_of (t k : Z) (p : pexp) : path :=
  match p with EOutput => POutT k t | EMetadata => PMetaT k t | _ => path_of k p end.

Fixpoint interp_store (t k : Z) (payload : pexp -> bytes) (c : option bytes) (l : list sstmt) : prog (result unit) :=
  match l with
  | [] => Ret (Ok tt)
  | SEnsure p :: rest =>
      Op (Stat (path_of k p)) (fun r =>
        if is_ok r then interp_store t k payload c rest
        else ebind (mkdirp (path_of k p)) (fun _ => interp_store t k payload c rest))
  | SCreate p :: rest => ebind (mkdirp (path_of k p)) (fun _ => interp_store t k payload c rest)
  | SSafeWrite fin :: rest =>
      csw (tmp_of t k fin) (path_of k fin) (payload fin)
          (fun r => match r with Ok _ => interp_store t k payload c rest | Raise e => Ret (Raise e) end)
  | SWriteIfGiven p :: rest =>
      match c with
      | None => interp_store t k payload c rest
      | Some b => Op (Creat (path_of k p)) (fun r =>
                    match r with
                    | RErr e => Ret (Raise (exn_of e))
                    | _ => Op (Write (path_of k p) b) (fun _ => interp_store t k payload c rest)
                    end)
      end
  end.

Definition handled (h : handler) (p : prog (result unit)) : prog (result unit) :=
  match h with
  | HSwallow => pbind p (fun _ => Ret (Ok tt))     (* except Exception: warn / except: pass *)
  | HPropagate => p
  end.

Section Memory.
(* external code: pickle / unpickle (with any compressor), the json metadata, the function's
   source text as written to func_code.py, the comparison done on it, utf-8 decoding, the user
   function *)
Variable pickle : Z -> bytes.
Variable unpickle : bytes -> option Z.
Variable meta : bytes.
Variable parse_meta : bytes -> bool.      (* json.loads succeeded and gave a non-empty dict *)
Variable code : Z -> bytes.               (* version -> "# first line: n\n" + source *)
Variable code_eq : bytes -> Z -> bool.    (* extract_first_line(content)[0] == func_code *)
Variable decodes : bytes -> bool.         (* content.decode("utf-8") succeeds *)
Variable gitbytes : bytes.
Variable f : Z -> Z -> Z.                 (* source version -> argument key -> value *)

Variable cur : Z.                         (* source version of the calling process *)
Variable t : Z.                           (* writer id of the calling process/thread *)
Variable cb : option bool.                (* cache_validation_callback: None, or its verdict on
                                             non-empty metadata (expires_after: age < delta) *)

(* StoreBackendMixin.store_cached_func_code([func_id], func_code) *)
Definition store_code (c : option bytes) : prog (result unit) :=
  handled (snd store_code_src) (interp_store 0 0 (fun _ => []) c (fst store_code_src)).

(* dump_item: every exception becomes a CacheWarning *)
Definition dump_item (k v : Z) : prog unit :=
  pbind (handled (snd dump_item_src) (interp_store t k (fun _ => pickle v) None (fst dump_item_src))) (fun _ => Ret tt).

(* store_metadata: bare except: pass *)
Definition store_metadata (k : Z) : prog unit :=
  pbind (handled (snd store_metadata_src) (interp_store t k (fun _ => meta) None (fst store_metadata_src))) (fun _ => Ret tt).

(* MemorizedFunc.clear: clear_path([func_id]) then _write_func_code *)
Definition clear_func : prog (result unit) :=
  pbind (Op (Stat PFunc) (fun r => if is_ok r then rmtree_ign PFunc else Ret tt))
        (fun _ => store_code (Some (code cur))).

(* _check_previous_func_code.  [intable]: the function is in _FUNCTION_HASHES of this process.
   Result: (code unchanged?, intable afterwards) *)
Definition check_code (intable : bool) : prog (result bool * bool) :=
  if intable then Ret (Ok true, true)
  else Op (ReadAll PCode) (fun r =>
         match r with
         | RBytes b =>
             if negb (decodes b) then Ret (Raise ValueError, false)   (* UnicodeDecodeError *)
             else if code_eq b cur then Ret (Ok true, false)
             else pbind clear_func (fun r1 =>
                    Ret (match r1 with Ok _ => (Ok false, true) | Raise e => (Raise e, false) end))
         | _ => pbind (store_code (Some (code cur))) (fun r1 =>
                  Ret (match r1 with Ok _ => (Ok false, true) | Raise e => (Raise e, false) end))
         end).

(* clear_item *)
Definition clear_item (k : Z) : prog unit :=
  Op (Stat (PEntry k)) (fun r => if is_ok r then rmtree_ign (PEntry k) else Ret tt).

(* _is_in_cache_and_valid *)
Definition is_valid (k : Z) (intable : bool) : prog (result bool * bool) :=
  pbind (check_code intable) (fun ri =>
    match ri with
    | (Raise e, it) => Ret (Raise e, it)
    | (Ok false, it) => Ret (Ok false, it)
    | (Ok true, it) =>
        Op (Stat (POut k)) (fun r =>
          if negb (is_ok r) then Ret (Ok false, it)
          else Op (ReadAll (PMeta k)) (fun r2 =>
                 let md := match r2 with RBytes b => parse_meta b | _ => false end in
                 match cb with
                 | Some verdict =>
                     if negb md || negb verdict
                     then pbind (clear_item k) (fun _ => Ret (Ok false, it))
                     else Ret (Ok true, it)
                 | None => Ret (Ok true, it)
                 end))
    end).

Inductive outcome :=
| OVal (v : Z) (computed : bool)
| OExn (e : exn)
| ODone.

(* MemorizedResult.get -> load_item *)
Definition shelf_get (k : Z) (computed : bool) : prog outcome :=
  Op (Stat (POut k)) (fun r =>
    if negb (is_ok r) then Ret (OExn KeyError)
    else Op (ReadAll (POut k)) (fun r2 =>
           Ret (match r2 with
                | RBytes b => match unpickle b with Some v => OVal v computed | None => OExn EOFError end
                | RErr e => OExn (exn_of e)
                | _ => OExn OSError
                end))).

(* _call + _after_call + _persist_input *)
Definition compute_store (k : Z) : prog unit :=
  pbind (dump_item k (f cur k)) (fun _ => store_metadata k).

(* _cached_call (shelving=False: __call__; shelving=True: call_and_shelve(...).get()) *)
Definition cached_call (shelving : bool) (k : Z) (intable : bool) : prog (outcome * bool) :=
  pbind (is_valid k intable) (fun vi =>
    let recompute it :=
      pbind (compute_store k) (fun _ =>
        if shelving then pbind (shelf_get k true) (fun o => Ret (o, it))
        else Ret (OVal (f cur k) true, it)) in
    match vi with
    | (Raise e, it) => Ret (OExn e, it)
    | (Ok false, it) => recompute it
    | (Ok true, it) =>
        if shelving then
          (* MemorizedResult.__init__ reads the metadata again, then .get() *)
          Op (ReadAll (PMeta k)) (fun _ => pbind (shelf_get k false) (fun o => Ret (o, it)))
        else
          Op (Stat (POut k)) (fun r =>
            if negb (is_ok r) then recompute it       (* KeyError, caught by except Exception *)
            else Op (ReadAll (POut k)) (fun r2 =>
                   match r2 with
                   | RBytes b => match unpickle b with
                                 | Some v => Ret (OVal v false, it)
                                 | None => recompute it
                                 end
                   | _ => recompute it
                   end))
    end).

(* Memory.clear: rm_subdirs(location) -> delete_folder with up to RM_SUBDIRS_N_RETRY retries *)
Fixpoint delete_retry (fuel : nat) (q : path) : prog (result unit) :=
  Op (ListDir q) (fun r =>
    match r with
    | RErr e => Ret (Raise (exn_of e))          (* os.listdir outside the try block *)
    | _ => pbind (rmtree true q) (fun r1 =>
             match r1 with
             | Ok _ => Ret (Ok tt)
             | Raise e => match fuel with O => Ret (Raise e) | S fu => delete_retry fu q end
             end)
    end).

Definition delete_folder (q : path) : prog (result unit) :=
  Op (Stat q) (fun r => if is_ok r && is_dir q then delete_retry 10 q else Ret (Ok tt)).

Fixpoint delete_folders (l : list path) : prog (result unit) :=
  match l with
  | [] => Ret (Ok tt)
  | q :: tl => ebind (delete_folder q) (fun _ => delete_folders tl)
  end.

Definition memory_clear : prog (result unit) :=
  Op (ListDir PRoot) (fun r =>
    match r with
    | RNames l => delete_folders l
    | RErr e => Ret (Raise (exn_of e))
    | _ => Ret (Ok tt)
    end).

(* Memory.reduce_size: os.walk + get_items, then clear_location for the selected entries.
   The selection (_get_items_to_delete, property C18) is a parameter: any list of keys. *)
Definition entry_key (p : path) : option Z := match p with PEntry k => Some k | _ => None end.

Fixpoint stat_all (l : list path) : prog bool :=
  match l with
  | [] => Ret true
  | q :: tl => if is_dir q then stat_all tl
               else Op (Stat q) (fun r => if is_ok r then stat_all tl else Ret false)
  end.

Definition item_probe (k : Z) (l : list path) : prog bool :=
  Op (Stat (POut k)) (fun r =>
    if is_ok r then stat_all l
    else Op (Stat (PEntry k)) (fun r2 => if is_ok r2 then stat_all l else Ret false)).

Fixpoint stat_each (l : list path) : prog unit :=
  match l with [] => Ret tt | q :: tl => Op (Stat q) (fun _ => stat_each tl) end.

Fixpoint walk_each (rec : path -> prog (list Z)) (l : list path) : prog (list Z) :=
  match l with
  | [] => Ret []
  | q :: tl => pbind (rec q) (fun a => pbind (walk_each rec tl) (fun b => Ret (a ++ b)))
  end.

Fixpoint walk (d : nat) (p : path) : prog (list Z) :=
  Op (ListDir p) (fun r =>
    match r with
    | RNames l =>
        let dirs := filter is_dir l in
        pbind (match entry_key p with
               | Some k => pbind (item_probe k l) (fun ok => Ret (if ok then [k] else []))
               | None => Ret []
               end) (fun here =>
          pbind (stat_each (rev dirs)) (fun _ =>      (* islink(new_path), pushed in reverse *)
            match d with
            | O => Ret here
            | S d' => pbind (walk_each (walk d') dirs) (fun below => Ret (here ++ below))
            end))
    | _ => Ret []
    end).

Fixpoint clear_entries (ks : list Z) : prog unit :=
  match ks with
  | [] => Ret tt
  | k :: tl => pbind (rmtree_ign (PEntry k)) (fun _ => clear_entries tl)
  end.

Definition reduce_size (ks : list Z) : prog unit :=
  pbind (walk 4 PRoot) (fun _ => clear_entries ks).

(* Memory.__init__ -> FileSystemStoreBackend.configure *)
Definition memory_init : prog (result unit) :=
  Op (Stat PRoot) (fun r =>
    ebind (if is_ok r then Ret (Ok tt) else mkdirp PRoot) (fun _ =>
      Op (Creat PGit) (fun r2 =>
        match r2 with
        | RErr e => Ret (Raise (exn_of e))
        | _ => Op (Write PGit gitbytes) (fun _ => Ret (Ok tt))
        end))).

(* Memory.cache(f) -> MemorizedFunc.__init__ *)
Definition cache_init : prog (result unit) := store_code None.

Inductive action :=
| ACall (k : Z)
| AShelve (k : Z)
| AClear                 (* Memory.clear() *)
| AFClear                (* MemorizedFunc.clear() *)
| AReduce (ks : list Z). (* Memory.reduce_size(...) evicting the entries ks *)

Fixpoint run_actions (acts : list action) (intable : bool) : prog (list outcome) :=
  match acts with
  | [] => Ret []
  | a :: tl =>
      let next o it := pbind (run_actions tl it) (fun os => Ret (o :: os)) in
      match a with
      | ACall k => pbind (cached_call false k intable) (fun oi => next (fst oi) (snd oi))
      | AShelve k => pbind (cached_call true k intable) (fun oi => next (fst oi) (snd oi))
      | AClear => pbind memory_clear (fun r =>
                    match r with
                    | Ok _ => next ODone false         (* _FUNCTION_HASHES.clear() *)
                    | Raise e => next (OExn e) intable
                    end)
      | AFClear => pbind clear_func (fun r =>
                     match r with
                     | Ok _ => next ODone true
                     | Raise e => next (OExn e) intable
                     end)
      | AReduce ks => pbind (reduce_size ks) (fun _ => next ODone intable)
      end
  end.

(* one process: Memory(location); mem.cache(f); the actions *)
Definition session (acts : list action) : prog (list outcome) :=
  pbind memory_init (fun r =>
    match r with
    | Raise e => Ret [OExn e]
    | Ok _ => pbind cache_init (fun r2 =>
                match r2 with
                | Raise e => Ret [OExn e]
                | Ok _ => run_actions acts false
                end)
    end).

End Memory.

(* --------------------------------------------------- participants, schedules *)
(* a participant is alive with a remaining program, or dead (killed) *)
Inductive event :=
| Run (i : nat)              (* participant i performs its next operation *)
| Kill (i : nat)             (* participant i dies before its next operation *)
| Torn (i : nat) (j : nat).  (* ... dies inside its next write after j bytes *)

Definition pstate (A : Type) := option (prog A).

Fixpoint upd {B} (i : nat) (x : B) (l : list B) : list B :=
  match l, i with
  | [], _ => []
  | _ :: tl, O => x :: tl
  | y :: tl, S i' => y :: upd i' x tl
  end.

Definition gstep {A} (e : event) (c : fs * list (pstate A)) : fs * list (pstate A) :=
  let (s, ps) := c in
  match e with
  | Run i => match nth i ps None with
             | Some (Op o k) => let (r, s') := exec o s in (s', upd i (Some (k r)) ps)
             | _ => c
             end
  | Kill i => match nth i ps None with
              | Some (Op _ _) => (s, upd i None ps)
              | _ => c
              end
  | Torn i j => match nth i ps None with
                | Some (Op (Write q b) _) => (snd (exec (Write q (firstn j b)) s), upd i None ps)
                | Some (Op _ _) => (s, upd i None ps)
                | _ => c
                end
  end.

Definition grun {A} (evs : list event) (c : fs * list (pstate A)) : fs * list (pstate A) :=
  fold_left (fun c e => gstep e c) evs c.

(* after the schedule: let every live participant run to completion, in index order *)
Fixpoint drain {A} (ps : list (pstate A)) (s : fs) : list (option A) * fs :=
  match ps with
  | [] => ([], s)
  | None :: tl => let (r, s') := drain tl s in (None :: r, s')
  | Some p :: tl => let (a, s1) := run p s in let (r, s') := drain tl s1 in (Some a :: r, s')
  end.

(* ------------------------------------------------- a concrete instantiation *)
(* used by the correspondence check (vm_compute) and by the _refuted witnesses *)
Module Toy.
  Definition pickle (v : Z) : bytes := [128; v; 46; 10].
  Definition unpickle (b : bytes) : option Z :=
    match b with [128; v; 46; 10] => Some v | _ => None end.
  Definition meta : bytes := [123; 34; 125].
  Definition parse_meta (b : bytes) : bool :=
    match b with [123; 34; 125] => true | _ => false end.
  (* versions >= 100 stand for a source text with a two-byte utf-8 character (195, 169) *)
  Definition code (v : Z) : bytes :=
    if 100 <=? v then [35; v; 195; 169; 10] else [35; v; 100; 101; 10].
  Definition bytes_eqb (a b : bytes) : bool :=
    (Nat.eqb (length a) (length b)) && forallb (fun xy => fst xy =? snd xy) (combine a b).
  Definition code_eq (b : bytes) (v : Z) : bool := bytes_eqb b (code v).
  Definition decodes (b : bytes) : bool :=
    match rev b with x :: _ => negb (x =? 195) | [] => true end.
  Definition gitbytes : bytes := [35; 42; 10].
  Definition f (v k : Z) : Z := v * 1000 + k.

  Definition session cur t cb acts :=
    session pickle unpickle meta parse_meta code code_eq decodes gitbytes f cur t cb acts.
End Toy.
