(* The concrete cache key of joblib.memory:  key f args kwargs = md5 (stream (filter_args f args kwargs)),
   obtained by COMPOSING model M2 (Model/FilterArgs.v: func_inspect.filter_args) with model M3
   (Model/HashEnc.v: the byte stream hashing.Hasher feeds to md5).  Executable definitions only; both
   models are imported read-only.

   The two models have different value universes: M2's argument values and names are abstract integers,
   M3's values are Python trees.  The bridge is explicit:
     vmap : Z -> HashEnc.value     what tree an abstract argument value denotes  (parameter)
     nmap : Z -> list byte         the UTF-8 bytes of an abstract parameter name (parameter)
   and the dict that filter_args returns becomes the tree
     { name : value, ..., '*' : [surplus positionals], '**' : { name : value, ... } }
   with str keys ('*' = [42], '**' = [42; 42]), a list for '*' (joblib slices the args LIST) and a dict with
   str keys for '**'.
   Left out: bound methods (self is hashed as an object, outside M3's tree universe), values that are
   not trees (numpy arrays, arbitrary objects: Model/HashEncX.v), the coerce_mmap flag. *)
From Coq Require Import ZArith List Bool.
Require Import JV.Base.PyPrelude.
Require JV.Model.FilterArgs JV.Model.HashEnc.
Import ListNotations.

Module FA := JV.Model.FilterArgs.
Module HE := JV.Model.HashEnc.

Section KeyModel.
  Variable md5 : list Z -> list Z.          (* hashlib.md5(b).hexdigest() as ASCII codes *)
  Variable vmap : Z -> HE.value.
  Variable nmap : Z -> list Z.

  Definition STAR : list Z := [42%Z].
  Definition STARSTAR : list Z := [42%Z; 42%Z].

  Definition key_name (k : FA.key) : list Z :=
    match k with FA.KName n => nmap n | FA.KStar => STAR | FA.KStarStar => STARSTAR end.

  Definition kw_item (nv : FA.name * FA.value) : HE.value * HE.value := (HE.VStr (nmap (fst nv)), vmap (snd nv)).

  Definition arg_tree (a : FA.argval) : HE.value :=
    match a with
    | FA.VOne v => vmap v
    | FA.VTuple l => HE.VList (map vmap l)
    | FA.VDict d => HE.VDict (map kw_item d)
    end.

  Definition dict_item (ka : FA.key * FA.argval) : HE.value * HE.value :=
    (HE.VStr (key_name (fst ka)), arg_tree (snd ka)).

  Definition dict_tree (d : FA.adict) : HE.value := HE.VDict (map dict_item d).

  (* the bytes hashed for a canonical dict, and joblib.hash of it *)
  Definition stream_of (d : FA.adict) : option (list Z) := HE.enc_top md5 (dict_tree d).
  Definition digest_of_dict (d : FA.adict) : option (list Z) :=
    match stream_of d with Some b => Some (md5 b) | None => None end.

  (* MemorizedFunc._get_args_id for a plain function with signature s and ignore list ign *)
  Definition key_stream (s : FA.sig) (ign : list FA.key) (c : FA.call) : option (list Z) :=
    match FA.filter_args_model s ign None c with
    | Ok d => stream_of d
    | Raise _ => None
    end.

  Definition key (s : FA.sig) (ign : list FA.key) (c : FA.call) : option (list Z) :=
    match FA.filter_args_model s ign None c with
    | Ok d => digest_of_dict d
    | Raise _ => None
    end.

  (* the binding of a call outside the ignore list: the canonical dict minus the ignored keys *)
  Definition restrict_binding (s : FA.sig) (ign : list FA.key) (b : FA.binding) : FA.adict :=
    filter (fun kv => negb (FA.key_mem (fst kv) ign)) (FA.canon s b).

  Fixpoint zlist_eqb (a b : list Z) : bool :=
    match a, b with
    | [], [] => true
    | x :: a', y :: b' => Z.eqb x y && zlist_eqb a' b'
    | _, _ => false
    end.

  Definition odigest_eqb (a b : option (list Z)) : bool :=
    match a, b with
    | Some x, Some y => zlist_eqb x y
    | None, None => true
    | _, _ => false
    end.
End KeyModel.
