(* M8 -- hand-written model of the n_jobs resolution (joblib/_parallel_backends.py), of the nested
   backend choice, of the configure() fallbacks and of the process environment a task of each
   backend family runs in; plus the number of worker processes a tree of nested Parallel calls asks for.
   Executable definitions only.  The arithmetic is ALSO regenerated from the source (Gen/T_njobs.v);
   Proofs/NJobs.v shows the two agree. *)
From Coq Require Import ZArith List Bool.
Require Import JV.Base.PyPrelude.
Import ListNotations.
Open Scope Z_scope.

(* the four built-in backend families *)
Inductive kind := KSeq | KThr | KLoky | KMp.

Definition kind_eqb (a b : kind) : bool :=
  match a, b with KSeq, KSeq | KThr, KThr | KLoky, KLoky | KMp, KMp => true | _, _ => false end.

Definition is_process_kind (k : kind) : bool := match k with KLoky | KMp => true | _ => false end.

(* a backend instance as far as n_jobs is concerned: its class and its nesting_level *)
Record bk := { bkind : kind; blevel : Z }.

(* what effective_n_jobs reads from the process / thread it is called in *)
Record penv := {
  e_mp_none : bool;   (* joblib._multiprocessing_helpers.mp is None *)
  e_cpus    : Z;      (* loky.cpu_count() *)
  e_daemon  : bool;   (* mp.current_process().daemon *)
  e_depth   : Z;      (* loky.process_executor._CURRENT_DEPTH *)
  e_main    : bool    (* threading.current_thread() is the main thread of its process *)
}.

(* "a negative n_jobs means cpu_count()+1+n_jobs but at least 1" *)
Definition resolve (cpus n : Z) : Z := if n <? 0 then Z.max (cpus + 1 + n) 1 else n.

(* PoolManagerMixin.effective_n_jobs (ThreadingBackend inherits it unchanged) *)
Definition pool_eff (mp_none : bool) (cpus n : Z) : result Z :=
  if n =? 0 then Raise ValueError else if mp_none then Ok 1 else Ok (resolve cpus n).

(* not (self.in_main_thread() or self.nesting_level == 0) *)
Definition thread_guard (e : penv) (level : Z) : bool := negb (e_main e || (level =? 0)).

Definition eff_model (k : kind) (e : penv) (level n : Z) : result Z :=
  match k with
  | KSeq => if n =? 0 then Raise ValueError else Ok 1
  | KThr => pool_eff (e_mp_none e) (e_cpus e) n
  | KLoky =>
      if n =? 0 then Raise ValueError
      else if e_mp_none e then Ok 1
      else if e_daemon e then Ok 1
      else if thread_guard e level then Ok 1
      else Ok (resolve (e_cpus e) n)
  | KMp =>
      (* the guards come BEFORE the n_jobs == 0 test in MultiprocessingBackend.effective_n_jobs *)
      if e_mp_none e then Ok 1
      else if e_daemon e then Ok 1
      else if e_depth e >? 0 then Ok 1
      else if thread_guard e level then Ok 1
      else pool_eff (e_mp_none e) (e_cpus e) n
  end.

(* ParallelBackendBase.get_nested_backend (Threading, Loky, Multiprocessing); the n_jobs it hands to
   the nested context is None.  SequentialBackend.get_nested_backend returns the caller's active
   backend instead, which is why [KSeq] does not appear here: see [worker_site]. *)
Definition nested_backend (b : bk) : bk :=
  let l := blevel b + 1 in
  if l >? 1 then {| bkind := KSeq; blevel := l |} else {| bkind := KThr; blevel := l |}.

(* Parallel._initialize_backend + <Backend>.configure: the backend that really runs the call and its
   number of workers.  effective n_jobs == 1  ==>  FallbackToBackend(SequentialBackend(nesting_level=
   self.nesting_level)), whose own configure(n_jobs) is then run with the SAME n_jobs (so n_jobs = 0 is
   rejected there even when a nesting guard of MultiprocessingBackend answered 1 first). *)
Definition configure (b : bk) (e : penv) (n : Z) : result (bk * Z) :=
  bind (eff_model (bkind b) e (blevel b) n) (fun eff =>
  match bkind b with
  | KSeq => Ok (b, eff)
  | _ => if eff =? 1
         then bind (eff_model KSeq e (blevel b) n) (fun eff' => Ok ({| bkind := KSeq; blevel := blevel b |}, eff'))
         else Ok (b, eff)
  end).

(* where a Parallel call is made from: the backend of the enclosing parallel_config (None = no
   context: the default backend, LokyBackend(nesting_level=0)) and the process/thread environment *)
Record site := { s_ctx : option bk; s_env : penv }.

Definition default_backend : bk := {| bkind := KLoky; blevel := 0 |}.
Definition active (s : site) : bk := match s_ctx s with Some b => b | None => default_backend end.

(* the hints of the call itself: resolved codes of prefer (0 None, 1 'threads', 2 'processes') and require
   (0 None, 1 'sharedmem'); inside workers the context installed by joblib carries no hints of its own *)
Record hint := { h_prefer : Z; h_require : Z }.
Definition no_hint : hint := {| h_prefer := 0; h_require := 0 |}.
Definition hint_valid (h : hint) : bool :=
  ((h_prefer h =? 0) || (h_prefer h =? 1) || (h_prefer h =? 2)) && ((h_require h =? 0) || (h_require h =? 1)) &&
  negb ((h_prefer h =? 2) && (h_require h =? 1)).
Definition kind_shm (k : kind) : bool := match k with KSeq | KThr => true | _ => false end.   (* = uses_threads *)

(* _get_active_backend(prefer, require) at this site (hand model; Proofs/NJobs.v shows it is the function REGENERATED
   from joblib/parallel.py applied to the site's context): a backend named by the context is explicit, so only
   require='sharedmem' can replace it; the default backend (loky) yields to prefer='threads' / require='sharedmem' *)
Definition active_h (s : site) (h : hint) : result bk :=
  if negb (hint_valid h) then Raise ValueError
  else match s_ctx s with
       | Some b => if (h_require h =? 1) && negb (kind_shm (bkind b))
                   then Ok {| bkind := KThr; blevel := blevel b |} else Ok b
       | None => if (h_require h =? 1) || (h_prefer h =? 1)
                 then Ok {| bkind := KThr; blevel := 0 |} else Ok default_backend
       end.

(* Parallel.__init__: backend=None -> the active one; backend='name' -> that class at the active backend's nesting
   level, refused with require='sharedmem' when it has no shared memory *)
Definition chosen_r (s : site) (bsel : option kind) (h : hint) : result bk :=
  bind (active_h s h) (fun ab =>
  match bsel with
  | None => Ok ab
  | Some k => if (h_require h =? 1) && negb (kind_shm k) then Raise ValueError
              else Ok {| bkind := k; blevel := blevel ab |}
  end).

Definition with_env (e : penv) (main daemon : bool) (depth : Z) : penv :=
  {| e_mp_none := e_mp_none e; e_cpus := e_cpus e; e_daemon := daemon; e_depth := depth; e_main := main |}.

(* the site the TASKS of a call run in, given the backend that runs the call (after configure):
   sequential: inline, nothing changes (no parallel_config is entered by _get_sequential_output);
   threading : a pool thread of the same process, BatchedCalls enters parallel_config(nested backend);
   loky      : main thread of a worker process (daemon flag inherited, _CURRENT_DEPTH + 1);
   multiprocessing : main thread of a daemonic Pool worker (forked: _CURRENT_DEPTH inherited). *)
Definition worker_site (s : site) (b : bk) : site :=
  let e := s_env s in
  match bkind b with
  | KSeq => s
  | KThr => {| s_ctx := Some (nested_backend b); s_env := with_env e false (e_daemon e) (e_depth e) |}
  | KLoky => {| s_ctx := Some (nested_backend b); s_env := with_env e true (e_daemon e) (e_depth e + 1) |}
  | KMp => {| s_ctx := Some (nested_backend b); s_env := with_env e true true (e_depth e) |}
  end.

(* a tree of nested calls: Parallel(n_jobs=n, backend=bsel) whose tasks make the calls [children] *)
Inductive call := Call (bsel : option kind) (h : hint) (n : Z) (children : list call).

(* what one call resolves to, for the correspondence check: backend class that runs it, its
   nesting level, its number of workers; ValueError for n_jobs = 0 *)
Definition call_outcome (s : site) (bsel : option kind) (h : hint) (n : Z) : result (bk * Z) :=
  bind (chosen_r s bsel h) (fun b => configure b (s_env s) n).

(* worker processes requested by the whole tree (each process-backed call that really goes
   parallel counts its workers; calls that fail with ValueError run nothing) *)
Fixpoint procs (s : site) (c : call) {struct c} : Z :=
  match c with
  | Call bsel h n children =>
      match call_outcome s bsel h n with
      | Raise _ => 0
      | Ok (b, eff) =>
          let ws := worker_site s b in
          (if is_process_kind (bkind b) then eff else 0) +
          (fix go (l : list call) : Z := match l with [] => 0 | ch :: t => procs ws ch + go t end) children
      end
  end.

(* the largest number of tasks (of the innermost running calls) that can be running at the same time, if every pool
   really runs as many tasks at once as it has workers: a call with [eff] workers has [eff] tasks in flight, each of
   which is inside at most one of the nested calls at a time *)
Fixpoint conc (s : site) (c : call) {struct c} : Z :=
  match c with
  | Call bsel h n children =>
      match call_outcome s bsel h n with
      | Raise _ => 0
      | Ok (b, eff) =>
          let ws := worker_site s b in
          eff * (fix go (l : list call) : Z := match l with [] => 1 | ch :: t => Z.max (conc ws ch) (go t) end) children
      end
  end.

(* the largest resolved n_jobs anywhere in the tree (at least 1) *)
Fixpoint maxres (cpus : Z) (c : call) {struct c} : Z :=
  match c with
  | Call _ _ n children =>
      Z.max (Z.max 1 (resolve cpus n))
            ((fix go (l : list call) : Z := match l with [] => 1 | ch :: t => Z.max (maxres cpus ch) (go t) end) children)
  end.

(* every call of the tree leaves the backend to the defaults *)
Fixpoint default_tree (c : call) : bool :=
  match c with
  | Call bsel _ _ children =>
      match bsel with None => true | Some _ => false end &&
      (fix go (l : list call) : bool := match l with [] => true | ch :: t => default_tree ch && go t end) children
  end.

(* ... and, moreover, passes no hint anywhere *)
Definition is_no_hint (h : hint) : bool := (h_prefer h =? 0) && (h_require h =? 0).
Fixpoint nohint_tree (c : call) : bool :=
  match c with
  | Call bsel h _ children =>
      match bsel with None => true | Some _ => false end && is_no_hint h &&
      (fix go (l : list call) : bool := match l with [] => true | ch :: t => nohint_tree ch && go t end) children
  end.

(* the interpreter's main thread, outside any context manager, multiprocessing available *)
Definition top_site (cpus : Z) : site :=
  {| s_ctx := None;
     s_env := {| e_mp_none := false; e_cpus := cpus; e_daemon := false; e_depth := 0; e_main := true |} |}.

(* loky.backend.context._cpu_count_cgroup arithmetic: quota "max" = None *)
Definition cgroup_count (os_cpu_count : Z) (quota : option Z) (period : Z) : Z :=
  match quota with
  | None => os_cpu_count
  | Some q => if (q >? 0) && (period >? 0) then (q + period - 1) / period else os_cpu_count
  end.

(* hand model of cpu_count() (logical cores): os_raw = os.cpu_count(), aff/cg/loky_env = None when
   the constraint is absent *)
Definition os_count (os_raw : option Z) : Z :=
  match os_raw with Some c => if c =? 0 then 1 else c | None => 1 end.
Definition orelse (o : option Z) (d : Z) : Z := match o with Some a => a | None => d end.
Definition cpu_count_model (os_raw aff cg loky_env : option Z) : Z :=
  let os := os_count os_raw in
  Z.max (Z.min os (Z.min (Z.min (orelse aff os) (orelse cg os)) (orelse loky_env os))) 1.

(* cpu_count(only_physical_cores=True): a restrictive user setting (affinity, cgroup, LOKY_MAX_CPU_COUNT below the machine's
   CPU count) is respected first; otherwise the physical-core count when it is known (phys), else the logical count *)
Definition cpu_user_model (os_raw aff cg loky_env : option Z) : Z :=
  let os := os_count os_raw in Z.min (Z.min (orelse aff os) (orelse cg os)) (orelse loky_env os).
Definition cpu_count_physical_model (os_raw aff cg loky_env phys : option Z) : Z :=
  if cpu_user_model os_raw aff cg loky_env <? os_count os_raw then Z.max (cpu_user_model os_raw aff cg loky_env) 1
  else match phys with Some p => p | None => cpu_count_model os_raw aff cg loky_env end.
