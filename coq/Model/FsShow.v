(* Printable views of M5 objects for the correspondence checks (numbers, tuples, lists only). *)
From Coq Require Import ZArith List Bool.
Require Import JV.Base.PyPrelude JV.Model.FsModel.
Import ListNotations.
Open Scope Z_scope.

Definition pcode (p : path) : Z * Z * Z :=
  match p with
  | PLoc => (0, 0, 0) | PGit => (1, 0, 0) | PRoot => (2, 0, 0) | PMod => (3, 0, 0)
  | PFunc => (4, 0, 0) | PCode => (5, 0, 0)
  | PEntry k => (6, k, 0) | POut k => (7, k, 0) | PMeta k => (8, k, 0)
  | POutT k t => (9, k, t) | PMetaT k t => (10, k, t)
  end.

Definition rcode (r : res) : Z :=
  match r with
  | ROk | RBytes _ | RNames _ => 0
  | RErr ENOENT => 2 | RErr EEXIST => 17 | RErr ENOTEMPTY => 39 | RErr ENOTDIR => 20
  end.

Definition rnames (r : res) : list (Z * Z * Z) :=
  match r with RNames l => map pcode l | _ => [] end.

Definition showop (x : fsop * res) : Z * (Z * Z * Z) * (Z * Z * Z) * Z * list (Z * Z * Z) :=
  let (o, r) := x in
  let z := (0, 0, 0) in
  match o with
  | Stat p => (0, pcode p, z, rcode r, [])
  | Mkdir p => (1, pcode p, z, rcode r, [])
  | Creat p => (2, pcode p, z, rcode r, [])
  | Write p _ => (3, pcode p, z, rcode r, [])
  | ReadAll p => (4, pcode p, z, rcode r, [])
  | Rename a b => (5, pcode a, pcode b, rcode r, [])
  | Unlink p => (6, pcode p, z, rcode r, [])
  | Rmdir p => (7, pcode p, z, rcode r, [])
  | ListDir p => (8, pcode p, z, rcode r, rnames r)
  end.

Definition showtrace (l : list (fsop * res)) := map showop l.

Definition excode (e : exn) : Z :=
  match e with
  | FileNotFoundError => 1 | KeyError => 2 | ValueError => 3 | OSError => 4
  | OtherError 17 => 5 | OtherError 20 => 6 | EOFError => 7 | _ => 9
  end.

Definition showout (o : outcome) : Z * Z * Z :=
  match o with
  | ODone => (0, 0, 0)
  | OVal v c => (1, v, if c then 1 else 0)
  | OExn e => (2, excode e, 0)
  end.

Definition showouts (l : list outcome) := map showout l.

(* content classes: 0 directory, (1, v) a complete pickle of v, 2 torn/empty, 3 complete
   metadata, (4, v) the complete source of version v, 5 the complete .gitignore *)
Definition toy_versions : list Z := [1; 2; 3; 100].

Definition classify (p : path) (b : bytes) : Z * Z :=
  if is_dir p then (0, 0)
  else match p with
       | POut _ | POutT _ _ => match Toy.unpickle b with Some v => (1, v) | None => (2, 0) end
       | PMeta _ | PMetaT _ _ => if Toy.parse_meta b then (3, 0) else (2, 0)
       | PCode => match filter (fun v => Toy.code_eq b v) toy_versions with
                  | v :: _ => (4, v) | [] => (2, 0) end
       | PGit => if Toy.bytes_eqb b Toy.gitbytes then (5, 0) else (2, 0)
       | _ => (2, 0)
       end.

Definition showfs (s : fs) := map (fun pb => (pcode (fst pb), classify (fst pb) (snd pb))) s.

Definition mkspec (v t : Z) (cb : option bool) (acts : list action) : Z * Z * option bool * list action :=
  (v, t, cb, acts).

Definition toy_of (sp : Z * Z * option bool * list action) : prog (list outcome) :=
  Toy.session (fst (fst (fst sp))) (snd (fst (fst sp))) (snd (fst sp)) (snd sp).

(* results of the participants of a configuration: finished -> Some outcomes *)
Definition showps (ps : list (pstate (list outcome))) : list (Z * list (Z * Z * Z)) :=
  map (fun p => match p with
                | Some (Ret a) => (1, showouts a)
                | Some (Op _ _) => (2, [])
                | None => (0, [])
                end) ps.

(* the operations performed along a schedule, tagged with the participant *)
Fixpoint gtrace {A} (evs : list event) (c : fs * list (pstate A)) : list (Z * (fsop * res)) :=
  match evs with
  | [] => []
  | e :: tl =>
      let here := match e with
                  | Run i => match nth i (snd c) None with
                             | Some (Op o _) => [(Z.of_nat i, (o, fst (exec o (fst c))))]
                             | _ => []
                             end
                  | _ => []
                  end in
      here ++ gtrace tl (gstep e c)
  end.

Definition showgtrace (l : list (Z * (fsop * res))) := map (fun x => (fst x, showop (snd x))) l.
