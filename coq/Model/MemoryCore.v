(* M4 -- joblib.memory: MemorizedFunc / MemorizedResult / Memory over an abstract store.

   Executable definitions only (no proofs).  One function identifier (module path + name):
   the directory <location>/joblib/<func_id>/ with its func_code.py and its entries
   <args_id>/output.pkl.  Everything that decides WHICH entry a call reads or writes and WHETHER
   the wrapped function runs is modelled statement by statement:

     MemorizedFunc.__call__ / call_and_shelve / _cached_call     -> cached_call
     MemorizedFunc._get_args_id  (filter_args, hashing.hash)      -> canonicalise, digest_of  (parameters)
     MemorizedFunc._is_in_cache_and_valid                         -> in_cache_and_valid
     MemorizedFunc._check_previous_func_code (+ fast path)        -> check_code
     MemorizedFunc.func_code_info / func_inspect.get_func_code    -> source_of   (reads the FILE, lazily, once)
     MemorizedFunc._write_func_code / _hash_func, _FUNCTION_HASHES-> write_func_code, [table]
     MemorizedFunc._call (func(ARGS, KWARGS), dump_item)       -> the miss branch of cached_call
     MemorizedFunc.check_call_in_cache / clear                    -> Check / ClearFunc
     MemorizedResult.get / clear                                  -> Get / ClearRef
     Memory.cache / clear / reduce_size                           -> Wrap / ClearMem / Evict

   The model is parametric in
     canonicalise : call -> result key_input   the real filter_args (ignore list applied), may raise
     bind_spec    : call -> option binding     Python's own binding of the call (None = TypeError)
     restrict     : binding -> kbinding        the binding minus the ignored parameters
     digest_of    : key_input -> digest        hashing.hash
     code k, path_of k, named k                source text / source file / "has a __name__ that is
                                               not <lambda>" of function object k
     f            : src -> binding -> value    the value the source text computes (pure user function)
   Models M2 (FilterArgs.v) and M3 (HashEnc.v) instantiate the first four.

   Not modelled: compression and pickling of values (identity here; C03/C13), verbose output,
   warnings (JobLibCollisionWarning does not influence any result), mmap_mode, swapping
   func.__code__ (sampled by the check only), exceptions while loading a present entry
   (C05/C14), concurrency (C11). *)
From Coq Require Import List Bool Arith.
Require Import JV.Base.PyPrelude.
Import ListNotations.

(* ---------------------------------------------------------------- association lists *)
Fixpoint lookup_nat {A} (k : nat) (l : list (nat * A)) : option A :=
  match l with
  | [] => None
  | (k', a) :: t => if Nat.eqb k k' then Some a else lookup_nat k t
  end.

Fixpoint remove_key {A} (k : nat) (l : list (nat * A)) : list (nat * A) :=
  match l with
  | [] => []
  | (k', a) :: t => if Nat.eqb k k' then remove_key k t else (k', a) :: remove_key k t
  end.

Definition set_nat {A} (k : nat) (a : A) (l : list (nat * A)) : list (nat * A) :=
  (k, a) :: remove_key k l.

Definition mem_nat (k : nat) (l : list nat) : bool := existsb (Nat.eqb k) l.

Definition remove_nat (k : nat) (l : list nat) : list nat := filter (fun x => negb (Nat.eqb k x)) l.

Section MemoryCore.
  Context {call key_input digest binding kbinding value src : Type}.

  Record cfg := {
    canonicalise : call -> result key_input;
    bind_spec : call -> option binding;
    restrict : binding -> kbinding;
    digest_of : key_input -> digest;
    digest_eqb : digest -> digest -> bool;
    src_eqb : src -> src -> bool;
    code : nat -> src;
    path_of : nat -> nat;
    named : nat -> bool;
    f : src -> binding -> value
  }.

  Variable C : cfg.

  (* ------------------------------------------------------------------ entries of the store *)
  Fixpoint dlookup (d : digest) (l : list (digest * value)) : option value :=
    match l with
    | [] => None
    | (d', v) :: t => if digest_eqb C d d' then Some v else dlookup d t
    end.

  Fixpoint dremove (d : digest) (l : list (digest * value)) : list (digest * value) :=
    match l with
    | [] => []
    | (d', v) :: t => if digest_eqb C d d' then dremove d t else (d', v) :: dremove d t
    end.

  Definition dset (d : digest) (v : value) (l : list (digest * value)) := (d, v) :: dremove d l.

  Definition dmem (d : digest) (ds : list digest) : bool := existsb (digest_eqb C d) ds.

  (* ------------------------------------------------------------------------------- events *)
  Inductive event :=
  | Define (k : nat)       (* write [code k] into file [path_of k] and execute it: function object k *)
  | Wrap (k : nat)         (* w_k = memory.cache(g_k): a fresh MemorizedFunc for the live object k *)
  | Call (k : nat) (c : call) (vld : bool)     (* w_k(ARGS, KWARGS); vld = answer of the validation callback *)
  | Shelve (k : nat) (c : call) (vld : bool)   (* refs.append(w_k.call_and_shelve(...)) *)
  | Check (k : nat) (c : call) (vld : bool)    (* w_k.check_call_in_cache(...) *)
  | Get (r : nat)          (* refs[r].get() *)
  | ClearRef (r : nat)     (* refs[r].clear() *)
  | ClearFunc (k : nat)    (* w_k.clear() *)
  | ClearMem               (* memory.clear() *)
  | Evict (ds : list digest)   (* memory.reduce_size(...) removed exactly these entries *)
  | NewProcess             (* a fresh interpreter on the same cache directory and source files *)
  | Forget (k : option nat).
      (* _FUNCTION_HASHES no longer vouches for object k AT THIS STORE (Some k), or for any object (None): the
         function was validated against ANOTHER cache location meanwhile (its entry now carries that location:
         fix F45), or Memory.clear() of another location emptied the table.  Only issued by the multi-location
         product model (Model/MemoryLoc.v). *)

  Inductive outcome :=
  | OSkip                  (* the event is not executable (no such object / wrapper / reference) *)
  | ODone
  | ORaise (e : exn)
  | OHit (v : value)       (* value served from the store, f not executed *)
  | OMiss (v : value)      (* f executed, value stored *)
  | OShelved (hit : bool) (r : nat)
  | OCheck (b : bool)
  | OGot (v : value).

  Record state := {
    files : list (nat * src);             (* source files: path -> text *)
    disk : option src;                    (* func_code.py of the function id (None = absent) *)
    entries : list (digest * value);      (* <args_id>/output.pkl *)
    table : list nat;                     (* _FUNCTION_HASHES: function objects validated in this process *)
    live : list nat;                      (* function objects of this process *)
    wraps : list (nat * option src);      (* MemorizedFunc of object k and its cached _func_code_info *)
    refs : list (digest * (nat * call))   (* MemorizedResult references: args_id (+ who created it: ghost) *)
  }.

  Definition init : state :=
    {| files := []; disk := None; entries := []; table := []; live := []; wraps := []; refs := [] |}.

  Definition with_store (st : state) (dk : option src) (en : list (digest * value)) (tb : list nat) : state :=
    {| files := files st; disk := dk; entries := en; table := tb; live := live st; wraps := wraps st;
       refs := refs st |}.

  Definition with_entries (st : state) (en : list (digest * value)) : state :=
    with_store st (disk st) en (table st).

  Definition with_wraps (st : state) (w : list (nat * option src)) : state :=
    {| files := files st; disk := disk st; entries := entries st; table := table st; live := live st;
       wraps := w; refs := refs st |}.

  Definition with_refs (st : state) (r : list (digest * (nat * call))) : state :=
    {| files := files st; disk := disk st; entries := entries st; table := table st; live := live st;
       wraps := wraps st; refs := r |}.

  (* MemorizedFunc.func_code_info: get_func_code(self.func) reads the source FILE named by the code
     object, the first time it is needed, and is then cached on the wrapper. *)
  Definition source_of (st : state) (k : nat) : option (src * state) :=
    match lookup_nat k (wraps st) with
    | None => None
    | Some (Some s) => Some (s, st)
    | Some None =>
        match lookup_nat (path_of C k) (files st) with
        | None => None
        | Some s => Some (s, with_wraps st (set_nat k (Some s) (wraps st)))
        end
    end.

  (* MemorizedFunc._write_func_code: store func_code.py; named callables enter _FUNCTION_HASHES *)
  Definition write_func_code (st : state) (k : nat) (s : src) (en : list (digest * value)) : state :=
    with_store st (Some s) en (if named C k then k :: table st else table st).

  (* MemorizedFunc._check_previous_func_code, branch by branch *)
  Definition check_code (st : state) (k : nat) : option (bool * state) :=
    if mem_nat k (table st) then Some (true, st)              (* in-memory fast path *)
    else
      match source_of st k with
      | None => None
      | Some (s, st1) =>
          match disk st1 with
          | None => Some (false, write_func_code st1 k s (entries st1))   (* except (IOError, OSError) *)
          | Some old =>
              if src_eqb C old s then Some (true, st1)                    (* old_func_code == func_code *)
              else Some (false, write_func_code st1 k s [])               (* self.clear(): clear_path + write *)
          end
      end.

  (* MemorizedFunc._is_in_cache_and_valid; Some v = usable entry holding v *)
  Definition in_cache_and_valid (st : state) (k : nat) (d : digest) (vld : bool)
    : option (option value * state) :=
    match check_code st k with
    | None => None
    | Some (false, st1) => Some (None, st1)
    | Some (true, st1) =>
        match dlookup d (entries st1) with
        | None => Some (None, st1)                                         (* not contains_item *)
        | Some v =>
            if vld then Some (Some v, st1)
            else Some (None, with_entries st1 (dremove d (entries st1)))   (* clear_item, return False *)
        end
    end.

  (* MemorizedFunc._cached_call *)
  Definition cached_call (st : state) (k : nat) (c : call) (vld shelving : bool) : outcome * state :=
    match lookup_nat k (wraps st) with
    | None => (OSkip, st)
    | Some _ =>
        match canonicalise C c with                       (* args_id = self._get_args_id(ARGS, KWARGS) *)
        | Raise e => (ORaise e, st)
        | Ok ki =>
            let d := digest_of C ki in
            match in_cache_and_valid st k d vld with
            | None => (OSkip, st)
            | Some (Some v, st1) =>
                if shelving
                then (OShelved true (length (refs st1)), with_refs st1 (refs st1 ++ [(d, (k, c))]))
                else (OHit v, st1)
            | Some (None, st1) =>                         (* self._call: func(ARGS, KWARGS), dump_item *)
                match bind_spec C c with
                | None => (ORaise TypeError, st1)
                | Some b =>
                    let v := f C (code C k) b in
                    let st2 := with_entries st1 (dset d v (entries st1)) in
                    if shelving
                    then (OShelved false (length (refs st2)), with_refs st2 (refs st2 ++ [(d, (k, c))]))
                    else (OMiss v, st2)
                end
            end
        end
    end.

  Definition step (st : state) (e : event) : outcome * state :=
    match e with
    | Define k =>
        (ODone,
         {| files := set_nat (path_of C k) (code C k) (files st); disk := disk st; entries := entries st;
            table := remove_nat k (table st); live := k :: remove_nat k (live st);
            wraps := remove_key k (wraps st); refs := refs st |})
    | Wrap k =>
        if mem_nat k (live st) then (ODone, with_wraps st (set_nat k None (wraps st))) else (OSkip, st)
    | Call k c vld => cached_call st k c vld false
    | Shelve k c vld => cached_call st k c vld true
    | Check k c vld =>
        match lookup_nat k (wraps st) with
        | None => (OSkip, st)
        | Some _ =>
            match canonicalise C c with
            | Raise e => (ORaise e, st)
            | Ok ki =>
                match in_cache_and_valid st k (digest_of C ki) vld with
                | None => (OSkip, st)
                | Some (Some _, st1) => (OCheck true, st1)
                | Some (None, st1) => (OCheck false, st1)
                end
            end
        end
    | Get r =>
        match nth_error (refs st) r with
        | None => (OSkip, st)
        | Some (d, _) =>
            match dlookup d (entries st) with
            | Some v => (OGot v, st)
            | None => (ORaise KeyError, st)
            end
        end
    | ClearRef r =>
        match nth_error (refs st) r with
        | None => (OSkip, st)
        | Some (d, _) => (ODone, with_entries st (dremove d (entries st)))
        end
    | ClearFunc k =>                                       (* clear_path, then _write_func_code *)
        match source_of st k with
        | None => (OSkip, st)
        | Some (s, st1) => (ODone, write_func_code st1 k s [])
        end
    | ClearMem => (ODone, with_store st None [] [])        (* store.clear(); _FUNCTION_HASHES.clear() *)
    | Evict ds =>
        (ODone, with_entries st (filter (fun dv => negb (dmem (fst dv) ds)) (entries st)))
    | NewProcess =>
        (ODone,
         {| files := files st; disk := disk st; entries := entries st; table := []; live := [];
            wraps := []; refs := refs st |})
    | Forget ok =>
        (ODone, with_store st (disk st) (entries st)
                  (match ok with Some k => remove_nat k (table st) | None => [] end))
    end.

  (* the run of a history: (state before the event, event, outcome) for every event *)
  Fixpoint run (st : state) (h : list event) : list (state * event * outcome) :=
    match h with
    | [] => []
    | e :: t => let (o, st') := step st e in (st, e, o) :: run st' t
    end.

  Fixpoint final (st : state) (h : list event) : state :=
    match h with
    | [] => st
    | e :: t => final (snd (step st e)) t
    end.

  Definition outcomes (h : list event) : list outcome := map (fun x => snd x) (run init h).

  (* ---------------------------------------------------------------- admissible histories
     A purely syntactic monitor (it never looks at the store).  Within one process a function
     object k may be USED (Call / Shelve / Check / ClearFunc through its wrapper) only while
       - its source file has not been overwritten by a Define of different source text, and
       - no object of different source text has been used since k itself was last used
         (first use is always fine); this clause only concerns callables that can enter
         _FUNCTION_HASHES ([named]): lambdas, partials and other callables without a __name__
         never take the in-memory fast path.
     Events that are not executable (no such live, wrapped object) are ignored. *)
  Record mon := {
    m_live : list nat; m_wraps : list nat; m_stale : list nat; m_called : list nat; m_cur : option src
  }.

  Definition mon0 : mon := {| m_live := []; m_wraps := []; m_stale := []; m_called := []; m_cur := None |}.

  Definition cur_is (m : mon) (s : src) : bool :=
    match m_cur m with Some s' => src_eqb C s' s | None => false end.

  Definition use (m : mon) (k : nat) : option mon :=
    if mem_nat k (m_wraps m) then
      if negb (mem_nat k (m_stale m))
         && (negb (named C k) || negb (mem_nat k (m_called m)) || cur_is m (code C k))
      then Some {| m_live := m_live m; m_wraps := m_wraps m; m_stale := m_stale m;
                   m_called := k :: m_called m; m_cur := Some (code C k) |}
      else None
    else Some m.

  Definition adm_step (m : mon) (e : event) : option mon :=
    match e with
    | Define j =>
        Some {| m_live := j :: remove_nat j (m_live m);
                m_wraps := remove_nat j (m_wraps m);
                m_stale := filter (fun k => Nat.eqb (path_of C k) (path_of C j)
                                            && negb (src_eqb C (code C k) (code C j)))
                                  (remove_nat j (m_live m))
                           ++ remove_nat j (m_stale m);
                m_called := remove_nat j (m_called m);
                m_cur := m_cur m |}
    | Wrap k =>
        if mem_nat k (m_live m)
        then Some {| m_live := m_live m; m_wraps := k :: remove_nat k (m_wraps m); m_stale := m_stale m;
                     m_called := m_called m; m_cur := m_cur m |}
        else Some m
    | Call k c _ | Shelve k c _ | Check k c _ =>
        (* _get_args_id comes first: when it raises, nothing else of the wrapper runs *)
        match canonicalise C c with Ok _ => use m k | Raise _ => Some m end
    | ClearFunc k => use m k
    | ClearMem =>
        Some {| m_live := m_live m; m_wraps := m_wraps m; m_stale := m_stale m; m_called := [];
                m_cur := None |}
    | NewProcess => Some mon0
    | Forget ok =>
        Some {| m_live := m_live m; m_wraps := m_wraps m; m_stale := m_stale m;
                m_called := match ok with Some k => remove_nat k (m_called m) | None => [] end;
                m_cur := m_cur m |}
    | Get _ | ClearRef _ | Evict _ => Some m
    end.

  Fixpoint adm_run (m : mon) (h : list event) : bool :=
    match h with
    | [] => true
    | e :: t => match adm_step m e with Some m' => adm_run m' t | None => false end
    end.

  Definition admissible (h : list event) : bool := adm_run mon0 h.

  (* events that neither remove an entry nor bring different source text into play *)
  Definition quiet (s : src) (e : event) : bool :=
    match e with
    | Define j => src_eqb C (code C j) s
    | Wrap _ | Get _ | NewProcess | Forget _ => true
    | Call _ _ vld | Shelve _ _ vld | Check _ _ vld => vld
    | ClearRef _ | ClearFunc _ | ClearMem | Evict _ => false
    end.

  (* C12 histories: definitions, wrappers, plain calls, fresh processes *)
  Definition c12_event (e : event) : bool :=
    match e with Define _ | Wrap _ | Call _ _ true | NewProcess => true | _ => false end.

End MemoryCore.

Arguments cfg : clear implicits.
Arguments event : clear implicits.
Arguments outcome : clear implicits.
Arguments state : clear implicits.
Arguments mon : clear implicits.
