(* M4b -- the slow path of MemorizedFunc._check_previous_func_code as a decision procedure,
   together with memory.extract_first_line and the header written by _write_func_code.
   Executable definitions only.

   Inputs of one run of the slow path (the in-memory fast path is in Model/MemoryCore.v):
     stored  : what get_cached_func_code returns -- None = IOError/OSError (no func_code.py), otherwise the
               file as written by _write_func_code or by anybody else:
                 hdr = None            the text does not start with "# first line:"
                 hdr = Some None       it does, but the number is unreadable (truncated write; F9 fix: -1)
                 hdr = Some (Some n)   "# first line: n"
               and the rest of the text (body)
     cur     : func_code_info of the wrapper: source text, first line (-1 when the source is not available),
               whether a source file name is known, whether that file exists, whether its name starts with
               "<doctest ", whether the function is a lambda, and [disk_has_old]: the lines of the source
               file at the OLD first line (as many as the current text has) equal the stored text up to
               trailing whitespace.
   Output: the answer (Same = return True; FirstWrite = write func_code.py, return False; Changed = clear the
   function's directory, write func_code.py, return False), the JobLibCollisionWarnings issued, and the header
   + text written. *)
From Coq Require Import ZArith List Bool.
Require Import JV.Base.PyPrelude.
Import ListNotations.
Local Open Scope Z_scope.

Section CodeCheck.
  Context {src : Type}.
  Variable src_eqb : src -> src -> bool.

  Record stored_file := { hdr : option (option Z); body : src }.

  Record current := {
    cur_code : src; cur_line : Z; has_source_file : bool; file_exists : bool; is_doctest : bool;
    is_lambda : bool; disk_has_old : bool
  }.

  Inductive answer := Same | FirstWrite | Changed.
  Inductive warning := CannotDetect | PossibleCollision.

  (* memory.extract_first_line *)
  Definition extract_first_line (f : stored_file) : src * Z :=
    match hdr f with
    | Some (Some n) => (body f, n)
    | Some None => (body f, -1)      (* int('') raised ValueError: first line unknown *)
    | None => (body f, -1)
    end.

  (* what _write_func_code stores *)
  Definition written (c : current) : stored_file := {| hdr := Some (Some (cur_line c)); body := cur_code c |}.

  Definition decide (stored : option stored_file) (c : current) : answer * list warning :=
    match stored with
    | None => (FirstWrite, [])                            (* except (IOError, OSError) *)
    | Some f =>
        let (old_code, old_line) := extract_first_line f in
        if src_eqb old_code (cur_code c) then (Same, [])   (* old_func_code == func_code *)
        else
          let w1 := if ((old_line =? cur_line c) && (cur_line c =? -1)) || is_lambda c
                    then [CannotDetect] else [] in
          let w2 := if negb (old_line =? cur_line c) && has_source_file c
                    then (if (if file_exists c then disk_has_old c else is_doctest c)
                          then [PossibleCollision] else [])
                    else [] in
          (Changed, w1 ++ w2)                              (* self.clear(warn=True); return False *)
    end.

  (* the store after the run: func_code.py and whether the entries survive *)
  Definition after (stored : option stored_file) (c : current) : option stored_file * bool :=
    match fst (decide stored c) with
    | Same => (stored, true)
    | FirstWrite => (Some (written c), true)
    | Changed => (Some (written c), false)
    end.

End CodeCheck.

Arguments stored_file : clear implicits.
Arguments current : clear implicits.
