(* M3x -- extension of Model/HashEnc.v (C08) to what the tree model leaves out:

   * identity / memoisation (Pickler.memo): tuples, lists and dicts carry an object id; a second
     occurrence of an id is written as BINGET / LONG_BINGET of the memo index of the first one
     (recursive lists and dicts included: they are registered before their items);
   * Pickler.save_global through Hasher.save_global for module-level functions and classes:
     GLOBAL "module\nqualname\n" + memoize, BINGET afterwards;
   * NumpyHasher.save for ndarrays without object dtype: the raw bytes of the array (C order, or
     memory order of the transpose when only F-contiguous, flattened copy otherwise / for 0-d) and
     "_HASHED_DTYPE" + pickle.dumps(dtype) go STRAIGHT to the hash (`self._hash.update`), in traversal
     order, BEFORE the pickle stream, which only carries (klass, ("HASHED", <nothing>, shape, strides));
     coerce_mmap replaces the class of a memmap by ndarray.

   [enc_x_top] = the list of chunks handed to `_hash.update`, in order: the direct updates, then
   Hasher.dump's stream.  The digest is taken over their concatenation [digest_input_x].
   Arrays are abstract records filled in from the live object (class name, dtype pickle, shape,
   strides, contiguity flags, logical C-order elements); numpy itself is not modelled.
   Executable definitions only. *)
From Coq Require Import ZArith List Bool.
Require Import JV.Model.HashEnc.
Import ListNotations.
Open Scope Z_scope.

Inductive nop :=
| NO (o : op)
| NGlobal (name : list byte)      (* GLOBAL, name = b"module\nqualname\n" *)
| NPop | NPopMark.                (* POP, POP_MARK: only written for a tuple that contains itself *)
Definition nser (o : nop) : list byte :=
  match o with NO o => ser o | NGlobal n => 99 :: n | NPop => [48] | NPopMark => [49] end.
Definition nser_all (ops : list nop) : list byte := flat_map nser ops.

(* ---------------------------------------------------------------- arrays *)
Record arr := {
  a_klass : list byte;          (* b"module\nqualname\n" of obj.__class__ *)
  a_is_memmap : bool;           (* isinstance(obj, np.memmap) *)
  a_dtype_pickle : list byte;   (* pickle.dumps(obj.dtype) *)
  a_shape : list Z;
  a_strides : list Z;
  a_cflag : bool;               (* obj.flags.c_contiguous *)
  a_fflag : bool;               (* obj.flags.f_contiguous *)
  a_elems : list (list byte)    (* the elements in logical C order, itemsize bytes each *)
}.

(* b"numpy\nndarray\n" (compared with the live numpy) *)
Definition ndarray_name : list byte := [110; 117; 109; 112; 121; 10; 110; 100; 97; 114; 114; 97; 121; 10].
(* b"HASHED", b"_HASHED_DTYPE" *)
Definition tag_hashed : list byte := [72; 65; 83; 72; 69; 68].
Definition tag_dtype : list byte := [95; 72; 65; 83; 72; 69; 68; 95; 68; 84; 89; 80; 69].

Definition zrange (n : Z) : list Z := map Z.of_nat (seq 0 (Z.to_nat n)).

Fixpoint all_idx (shape : list Z) : list (list Z) :=
  match shape with
  | [] => [[]]
  | n :: t => flat_map (fun i => map (cons i) (all_idx t)) (zrange n)
  end.

Definition c_index (shape idx : list Z) : Z :=
  fold_left (fun acc ni => acc * fst ni + snd ni) (combine shape idx) 0.

(* the elements of obj.T in C order = obj in Fortran order *)
Definition f_elems (shape : list Z) (elems : list (list byte)) : list (list byte) :=
  map (fun j => nth (Z.to_nat (c_index shape (rev j))) elems []) (all_idx (rev shape)).

(* the buffer handed to self._hash.update *)
Definition fed_bytes (a : arr) : list byte :=
  match a_shape a with
  | [] => concat (a_elems a)                                     (* obj.flatten() *)
  | _ => if a_cflag a then concat (a_elems a)                     (* obj *)
         else if a_fflag a then concat (f_elems (a_shape a) (a_elems a))   (* obj.T *)
         else concat (a_elems a)                                  (* obj.flatten() *)
  end.

(* ---------------------------------------------------------------- values with identity *)
Inductive xvalue :=
| XLeaf (v : value)                       (* a tree of fresh objects, encoded by HashEnc.enc *)
| XArr (a : arr)
| XGlobal (name : list byte)              (* module-level function or class *)
| XTuple (id : Z) (l : list xvalue)
| XList (id : Z) (l : list xvalue)
| XDict (id : Z) (items : list (value * xvalue)).

Record xmemo := { xm : memo; xobjs : list (Z * Z); xglobals : list (list byte * Z) }.
Definition xmemo0 : xmemo := {| xm := memo0; xobjs := []; xglobals := [] |}.

Fixpoint lookup_id (i : Z) (l : list (Z * Z)) : option Z :=
  match l with [] => None | (k, v) :: t => if k =? i then Some v else lookup_id i t end.
Fixpoint lookup_name (n : list byte) (l : list (list byte * Z)) : option Z :=
  match l with [] => None | (k, v) :: t => if zlist_eqb k n then Some v else lookup_name n t end.

Definition xout := (list nop * list (list byte) * xmemo)%type.
Definition xencoder := xmemo -> option xout.

Definition with_memo (m : xmemo) (m' : memo) : xmemo := {| xm := m'; xobjs := xobjs m; xglobals := xglobals m |}.

(* Pickler.memoize of the object [id] *)
Definition xmemoize (id : Z) (m : xmemo) : list nop * xmemo :=
  let (p, m') := memoize (xm m) in
  (map NO p, {| xm := m'; xobjs := (id, mnext (xm m)) :: xobjs m; xglobals := xglobals m |}).

(* Pickler.save_global (module-level name) + memoize; the memo hit of Pickler.save *)
Definition xsave_global (name : list byte) (m : xmemo) : list nop * xmemo :=
  match lookup_name name (xglobals m) with
  | Some i => ([NO (get_op i)], m)
  | None => let (p, m') := memoize (xm m) in
            (NGlobal name :: map NO p,
             {| xm := m'; xobjs := xobjs m; xglobals := (name, mnext (xm m)) :: xglobals m |})
  end.

Fixpoint xrun_seq (es : list xencoder) (m : xmemo) : option (list (list nop) * list (list byte) * xmemo) :=
  match es with
  | [] => Some ([], [], m)
  | e :: t => match e m with
              | None => None
              | Some (o, u, m1) => match xrun_seq t m1 with
                                   | None => None
                                   | Some (os, us, m2) => Some (o :: os, u ++ us, m2)
                                   end
              end
  end.

(* Pickler._batch_appends / _batch_setitems on pre-encoded items (cf. HashEnc.batch) *)
Fixpoint xbatch (fuel : nat) (one many : op) (items : list (list nop)) : list nop :=
  match fuel with
  | O => []
  | S f =>
    let tmp := firstn BATCHSIZE items in
    let n := length tmp in
    (match tmp with
     | [] => []
     | [x] => x ++ [NO one]
     | _ => NO OMark :: concat tmp ++ [NO many]
     end) ++ (if Nat.ltb n BATCHSIZE then [] else xbatch f one many (skipn BATCHSIZE items))
  end.
Definition xbatch_all (one many : op) (items : list (list nop)) : list nop :=
  xbatch (S (length items)) one many items.

Definition xlift (e : encoder) : xencoder :=
  fun m => match e (xm m) with
           | None => None
           | Some (ops, m') => Some (map NO ops, [], with_memo m m')
           end.

(* Pickler.save_tuple (proto 3) with the memo: a hit before anything is written; after the items, the
   "Subtle" branch -- the tuple was memoised while its own items were saved (it contains itself through a
   list or dict): throw the items away (POP * n or POP_MARK) and fetch the memoised object *)
Definition xtuple (id : Z) (es : list xencoder) (m : xmemo) : option xout :=
  match lookup_id id (xobjs m) with
  | Some i => Some ([NO (get_op i)], [], m)
  | None =>
    match es with
    | [] => Some ([NO OEmptyTuple], [], m)
    | _ => match xrun_seq es m with
           | None => None
           | Some (os, us, m1) =>
             let n := length es in
             match lookup_id id (xobjs m1) with
             | Some i =>
               Some ((if Nat.leb n 3 then concat os ++ repeat NPop n else NO OMark :: concat os ++ [NPopMark])
                       ++ [NO (get_op i)], us, m1)
             | None =>
               let (p, m2) := xmemoize id m1 in
               Some ((if Nat.leb n 3
                      then concat os ++ [NO (match n with 1%nat => OTuple1 | 2%nat => OTuple2 | _ => OTuple3 end)]
                      else NO OMark :: concat os ++ [NO OTuple]) ++ p, us, m2)
             end
           end
    end
  end.

Definition xlist (id : Z) (es : list xencoder) (m : xmemo) : option xout :=
  match lookup_id id (xobjs m) with
  | Some i => Some ([NO (get_op i)], [], m)
  | None =>
    let (p, m1) := xmemoize id m in
    match xrun_seq es m1 with
    | None => None
    | Some (os, us, m2) => Some (NO OEmptyList :: p ++ xbatch_all OAppend OAppends os, us, m2)
    end
  end.

Definition xpair (ek ev : xencoder) : xencoder :=
  fun m => match ek m with
           | None => None
           | Some (ok, uk, m1) => match ev m1 with
                                  | None => None
                                  | Some (ov, uv, m2) => Some (ok ++ ov, uk ++ uv, m2)
                                  end
           end.

(* dict with plain, orderable keys: sorted(items) only ever compares the keys; a TypeError (mixed kinds)
   leaves this extension ([None]): the digest fallback is modelled in HashEnc.enc_dict only *)
Definition xkitem := (value * (xencoder * xencoder))%type.
Definition xkitem_lt (a b : xkitem) : option bool := py_lt (fst a) (fst b).

Definition xdict (id : Z) (its : list xkitem) (m : xmemo) : option xout :=
  match lookup_id id (xobjs m) with
  | Some i => Some ([NO (get_op i)], [], m)
  | None =>
    let (p, m1) := xmemoize id m in
    match py_sorted xkitem_lt its with
    | None => None
    | Some s =>
      match xrun_seq (map (fun it : xkitem => xpair (fst (snd it)) (snd (snd it))) s) m1 with
      | None => None
      | Some (os, us, m2) => Some (NO OEmptyDict :: p ++ xbatch_all OSetItem OSetItems os, us, m2)
      end
    end
  end.

Section X.
Variable md5 : list byte -> list byte.
Variable coerce_mmap : bool.

(* NumpyHasher.save, ndarray branch *)
Definition xarr (a : arr) (m : xmemo) : option xout :=
  let klass := if coerce_mmap && a_is_memmap a then ndarray_name else a_klass a in
  let (c, m1) := xsave_global klass m in
  match enc md5 (VTuple (map VInt (a_shape a))) (xm m1) with
  | None => None
  | Some (o_shape, m2) =>
    match enc md5 (VTuple (map VInt (a_strides a))) m2 with
    | None => None
    | Some (o_strides, m3) =>
      let (p_inner, m4) := memoize m3 in
      let (p_outer, m5) := memoize m4 in
      Some (c ++ map NO ([OMark; OBinUnicode tag_hashed] ++ o_shape ++ o_strides ++ [OTuple] ++ p_inner
                          ++ [OTuple2] ++ p_outer),
            [fed_bytes a; tag_dtype; a_dtype_pickle a],
            with_memo m1 m5)
    end
  end.

Fixpoint enc_x (v : xvalue) : xencoder :=
  match v with
  | XLeaf t => xlift (enc md5 t)
  | XArr a => xarr a
  | XGlobal name => fun m => let (c, m1) := xsave_global name m in Some (c, [], m1)
  | XTuple id l => xtuple id ((fix go (l : list xvalue) : list xencoder :=
                                 match l with [] => [] | x :: t => enc_x x :: go t end) l)
  | XList id l => xlist id ((fix go (l : list xvalue) : list xencoder :=
                               match l with [] => [] | x :: t => enc_x x :: go t end) l)
  | XDict id items => xdict id ((fix go (l : list (value * xvalue)) : list xkitem :=
                                   match l with
                                   | [] => []
                                   | (k, x) :: t => (k, (xlift (enc md5 k), enc_x x)) :: go t
                                   end) items)
  end.

(* the chunks handed to self._hash.update by NumpyHasher(...).hash(v) / Hasher.hash(v), in order *)
Definition enc_x_top (v : xvalue) : option (list (list byte)) :=
  match enc_x v xmemo0 with
  | None => None
  | Some (ops, ups, _) => Some (ups ++ [nser_all (NO OProto :: ops ++ [NO OStop])])
  end.

Definition digest_input_x (v : xvalue) : option (list byte) :=
  match enc_x_top v with None => None | Some chunks => Some (concat chunks) end.
End X.

(* forgetting identity: the tree the value denotes (arrays and globals have no tree counterpart) *)
Fixpoint erase (v : xvalue) : option value :=
  match v with
  | XLeaf t => Some t
  | XArr _ | XGlobal _ => None
  | XTuple _ l =>
      option_map VTuple ((fix go (l : list xvalue) : option (list value) :=
                            match l with
                            | [] => Some []
                            | x :: t => match erase x, go t with Some a, Some b => Some (a :: b) | _, _ => None end
                            end) l)
  | XList _ l =>
      option_map VList ((fix go (l : list xvalue) : option (list value) :=
                           match l with
                           | [] => Some []
                           | x :: t => match erase x, go t with Some a, Some b => Some (a :: b) | _, _ => None end
                           end) l)
  | XDict _ items =>
      option_map VDict ((fix go (l : list (value * xvalue)) : option (list (value * value)) :=
                           match l with
                           | [] => Some []
                           | (k, x) :: t => match erase x, go t with Some a, Some b => Some ((k, a) :: b) | _, _ => None end
                           end) items)
  end.
