(* Model of AutoBatchingMixin.compute_batch_size / batch_completed (joblib/_parallel_backends.py):
   the oracle that supplies the batch sizes of model M1 when batch_size='auto'.
   Durations are floats in the code; the model takes the two comparisons and the float expression
   int(old * MIN_IDEAL_BATCH_DURATION / duration) as inputs ([ideal]), so that its statements hold whatever
   the floating-point arithmetic yields.  Executable definitions only. *)
From Coq Require Import ZArith Bool.
Local Open Scope Z_scope.

Inductive speed := TooFast | TooSlow | Fine.

(* new effective batch size, and whether the smoothed duration is reset *)
Definition compute_batch_size (old : Z) (sp : speed) (ideal : Z) : Z * bool :=
  let bs :=
    match sp with
    | TooFast => Z.max (Z.min (2 * old) (2 * ideal)) 1
    | TooSlow => if 2 <=? old then Z.max (2 * ideal) 1 else old
    | Fine => old
    end in
  (bs, negb (bs =? old)).

(* a whole history: each step supplies the classification of the smoothed duration and [ideal] *)
Fixpoint run_sizes (old : Z) (steps : list (speed * Z)) : list Z :=
  match steps with
  | nil => nil
  | cons (sp, ideal) rest => let bs := fst (compute_batch_size old sp ideal) in cons bs (run_sizes bs rest)
  end.
