(* M1s -- joblib.Parallel with a backend that does NOT retrieve results in its completion callback
   (ParallelBackendBase.supports_retrieve_callback = False: the default of the base class, hence of
   third-party backends written against the documented backend API).  Such a backend
     * cannot return generators (Parallel.__call__ refuses return_as="generator*"), so the caller
       thread runs _start and then list(output): dispatch and retrieval are one thread;
     * has its completion callback run BatchCompletionCallBack._dispatch_new only
       (batch_completed(), then under the lock: stale-call guard, n_completed_tasks, dispatch_next);
     * has the caller pop the head of Parallel._jobs whatever its state and block in
       backend.retrieve_result(job, timeout) until the job is done (get_result), registering the
       outcome itself.
   The state is ParallelCore.st plus the job the caller is blocked on.  The dispatch side
   (dispatch_one_batch, _start, dispatch_next, _reset_run_tracking) is shared with M1: the same
   Gallina functions.
   Events:
     SCall      __call__ up to the entry of _start
     SDispatch  one dispatch_one_batch of the caller inside _start (as EDispatch of M1)
     SCb t b    the completion callback of batch t (locked section of _dispatch_new, batch size
                oracle b for its dispatch_next)
     SResult o  retrieve_result returns (o = None) or raises (o = Some e; TimeoutError included)
                for the job the caller is blocked on
   After every event the caller runs its retrieval loop as far as it can (adv_s).
   tk_status is used as follows in this model: Failed ErrIter on the tracker created when the input
   iterable raises (real: status TASK_ERROR, read by _raise_error_fast); Done is a ghost meaning
   "the completion callback has run" (the real status of such a tracker is None until get_result
   registers the outcome, and it is never read after that since the tracker has left _jobs). *)
From Coq Require Import List Bool Arith PeanoNat.
Require Import JV.Model.ParallelCore.
Import ListNotations.

Record sst := mk_sst { base : st; blk : option nat }.

Definition sinit : sst := mk_sst init None.

Inductive sev :=
| SCall (cf : cfg) (n : nat) (f : option nat)
| SDispatch (b : nat)
| SCb (t : nat) (b : nat)
| SResult (o : option err).

Inductive sobs := SReturned (l : list nat) | SRaised (e : err).

(* generators are refused for these backends: the call is always return_as="list" (ordered) *)
Definition list_cfg (cf : cfg) : cfg := {| n_jobs := n_jobs cf; pre := pre cf; mode := Ordered |}.

(* the callback has returned from batch_completed() and takes the lock *)
Definition move_mid (s : st) (t : nat) : st :=
  {| cid := cid s; running := running s; c := c s; N := N s; ifail := ifail s;
     taken := taken s; pre_left := pre_left s; ready := ready s; trk := trk s; jobs := jobs s; jset := jset s;
     inflight := remove_id t (inflight s); cbmid := cbmid s ++ [t]; n_disp := n_disp s; n_comp := n_comp s;
     iterating := iterating s; aborting := aborting s; exception := exception s; orig := orig s;
     phase := phase s; pend_out := pend_out s; want := want s; submitted := submitted s; delivered := delivered s;
     closed := closed s; abandoned := abandoned s; noisy := noisy s |}.

Definition cb_enter (s : st) (t : nat) : st :=
  match get_trk s t with
  | None => s
  | Some k =>
    if negb (Nat.eqb (tk_cid k) (cid s)) || aborting s then move_mid s t
    else cb_start s t None          (* ghost: marks the tracker Done *)
  end.

(* BatchCompletionCallBack.__call__ for these backends = _dispatch_new *)
Definition cb_sync (s : st) (t b : nat) : st :=
  match get_trk s t with
  | None => s
  | Some _ => if mem_id t (inflight s) then cb_finish true (cb_enter s t) t b else s
  end.

Definition deliver_list (s : st) (l : list nat) : st :=
  {| cid := cid s; running := running s; c := c s; N := N s; ifail := ifail s;
     taken := taken s; pre_left := pre_left s; ready := ready s; trk := trk s; jobs := jobs s; jset := jset s;
     inflight := inflight s; cbmid := cbmid s; n_disp := n_disp s; n_comp := n_comp s;
     iterating := iterating s; aborting := aborting s; exception := exception s; orig := orig s;
     phase := phase s; pend_out := pend_out s; want := want s; submitted := submitted s;
     delivered := delivered s ++ l; closed := closed s; abandoned := abandoned s; noisy := noisy s |}.

(* the loop after the finally block of _get_outputs *)
Definition drain_s (b : st) : sst * option sobs :=
  match phase b with
  | Draining [] => (mk_sst (set_out b (jobs b) (jset b) [] false Finished) None, Some (SReturned (delivered b)))
  | Draining (j :: js) => (mk_sst (set_out b (jobs b) (jset b) [] false (Draining js)) (Some j), None)
  | _ => (mk_sst b None, None)
  end.

Definition loop_exit (b : st) : st :=
  finalize b (Draining (if exception b then [] else jobs b)) (exception b) false.

(* the caller, not blocked, runs _retrieve's loop until it blocks, waits, returns or raises *)
Definition adv_s (b : st) : sst * option sobs :=
  match phase b with
  | Retrieving =>
    if aborting b then
      match first_failed b with
      | Some e => (mk_sst (finalize b Finished true true) None, Some (SRaised e))
      | None => drain_s (loop_exit b)
      end
    else
      match jobs b with
      | j :: js => (mk_sst (set_out b js (jset b) [] false Retrieving) (Some j), None)
      | [] => if iterating b || (n_comp b <? n_disp b) then (mk_sst b None, None)
              else drain_s (loop_exit b)
      end
  | Draining _ => drain_s b
  | _ => (mk_sst b None, None)
  end.

Definition lift (r : sst * option sobs) : sst * list sobs :=
  (fst r, match snd r with Some o => [o] | None => [] end).

Definition sstep (s : sst) (e : sev) : sst * list sobs :=
  let b := base s in
  match e with
  | SCall cf n f =>
    if running b then (s, [SRaised ErrRuntime])
    else match phase b with
         | Idle | Finished => (mk_sst (do_call b (list_cfg cf) n f) None, [])
         | _ => (s, [])
         end
  | SDispatch bs =>
    match blk s, phase b with
    | None, StartFirst | None, StartLoop => lift (adv_s (fst (step_raw true b (EDispatch bs))))
    | _, _ => (s, [])
    end
  | SCb t bs =>
    let b1 := cb_sync b t bs in
    match blk s with
    | Some j => (mk_sst b1 (Some j), [])
    | None => lift (adv_s b1)
    end
  | SResult o =>
    match blk s with
    | None => (s, [])
    | Some j =>
      match o with
      | None => lift (adv_s (deliver_list b (tasks_of b j)))
      | Some e => (mk_sst (finalize b Finished true true) None, [SRaised e])
      end
    end
  end.

Fixpoint srun (s : sst) (es : list sev) : sst * list (list sobs) :=
  match es with
  | [] => (s, [])
  | e :: r => let '(s1, o) := sstep s e in
              let '(s2, os) := srun s1 r in (s2, o :: os)
  end.

(* what the correspondence check compares after every event *)
Definition ssnap (s : sst) : list nat :=
  let b := base s in
  [taken b; n_disp b; n_comp b; length (jobs b); Nat.b2n (iterating b); Nat.b2n (aborting b);
   length (ready b); Nat.b2n (running b); match blk s with Some _ => 1 | None => 0 end; Nat.b2n (exception b)].
