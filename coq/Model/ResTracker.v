(* M10a -- model of the command loop of the loky resource tracker,
   joblib/externals/loky/backend/resource_tracker.py, function main(fd).

   Executable definitions only (no proofs).  Read off the code statement by statement:

     registry = {rtype: {} for rtype in _CLEANUP_FUNCS.keys()}      -> init
     while True: line = f.readline(); if line == b"": break          -> readlines / run
       splitted = line.strip().decode("ascii").split(":")            -> strip, is_ascii, split_colon
       cmd, name, rtype = splitted[0], ":".join(splitted[1:-1]), splitted[-1]   -> parse
       if cmd == "PROBE": continue
       if rtype not in _CLEANUP_FUNCS: raise ValueError
       REGISTER / UNREGISTER / MAYBE_UNLINK / else RuntimeError      -> classify, step
       except BaseException: sys.excepthook(...)                     -> the [option err] component
     finally: non-folder types in dict order, then folders            -> pending, finish

   Bytes are [Z]; a Python dict is an association list in insertion order whose keys are
   unique (an invariant proved in Proofs/ResTracker.v).  Two things are external and therefore
   parameters: [cf d] = "the clean-up function raises on deletion d" (the OS), and
   [w] = "warnings.warn raises" (the interpreter runs with -W error / PYTHONWARNINGS=error;
   the tracker inherits these flags through util._args_from_interpreter_flags()). *)
From Coq Require Import ZArith List Bool String Ascii.
Import ListNotations.
Open Scope Z_scope.

Definition bytes := list Z.
Definition line := bytes.

Definition bs (s : string) : bytes := map (fun a => Z.of_N (N_of_ascii a)) (list_ascii_of_string s).

Definition beq (a b : bytes) : bool := if list_eq_dec Z.eq_dec a b then true else false.

(* ---------------------------------------------------------------- the byte stream *)
(* f.readline() repeated until it returns b"": every line ends with \n except possibly the last *)
Fixpoint readlines (s : bytes) : list line :=
  match s with
  | [] => []
  | b :: t => if b =? 10 then [b] :: readlines t
              else match readlines t with
                   | [] => [[b]]
                   | h :: r => (b :: h) :: r
                   end
  end.

(* ---------------------------------------------------------------- the parser *)
(* bytes.strip(): ASCII whitespace = space \t \n \v \f \r *)
Definition is_ws (b : Z) : bool := (b =? 32) || ((9 <=? b) && (b <=? 13)).

Fixpoint lstrip (s : bytes) : bytes :=
  match s with
  | [] => []
  | b :: t => if is_ws b then lstrip t else s
  end.
Definition rstrip (s : bytes) : bytes := rev (lstrip (rev s)).
Definition strip (s : bytes) : bytes := rstrip (lstrip s).

(* .decode("ascii") succeeds iff every byte is < 128 *)
Definition is_ascii (s : bytes) : bool := forallb (fun b => (0 <=? b) && (b <? 128)) s.

(* str.split(":") -- never empty; k separators give k+1 fields *)
Fixpoint split_colon (s : bytes) : list bytes :=
  match s with
  | [] => [[]]
  | b :: t => match split_colon t with
              | [] => [[]]
              | h :: r => if b =? 58 then [] :: h :: r else (b :: h) :: r
              end
  end.

(* ":".join(fields) *)
Fixpoint join_colon (l : list bytes) : bytes :=
  match l with
  | [] => []
  | [x] => x
  | x :: t => x ++ 58 :: join_colon t
  end.

Inductive parsed :=
| PDecodeError
| PFields (cmd name rt : bytes).

Definition parse (l : line) : parsed :=
  let s := strip l in
  if is_ascii s then
    let f := split_colon s in
    PFields (hd [] f) (join_colon (removelast (tl f))) (last f [])
  else PDecodeError.

(* ---------------------------------------------------------------- resource types *)
(* keys of _CLEANUP_FUNCS on posix, in dict order: folder, file, semlock *)
Inductive rtype := Folder | File | Semlock.

Definition b_folder : bytes := Eval compute in bs "folder".
Definition b_file : bytes := Eval compute in bs "file".
Definition b_semlock : bytes := Eval compute in bs "semlock".
Definition b_PROBE : bytes := Eval compute in bs "PROBE".
Definition b_REGISTER : bytes := Eval compute in bs "REGISTER".
Definition b_UNREGISTER : bytes := Eval compute in bs "UNREGISTER".
Definition b_MAYBE_UNLINK : bytes := Eval compute in bs "MAYBE_UNLINK".

Definition rtype_of (s : bytes) : option rtype :=
  if beq s b_folder then Some Folder
  else if beq s b_file then Some File
  else if beq s b_semlock then Some Semlock
  else None.

Definition rtype_name (t : rtype) : bytes :=
  match t with Folder => b_folder | File => b_file | Semlock => b_semlock end.

Definition rtype_eqb (a b : rtype) : bool :=
  match a, b with Folder, Folder | File, File | Semlock, Semlock => true | _, _ => false end.

Definition key := (rtype * bytes)%type.
Definition deletion := key.

Definition key_eqb (a b : key) : bool := rtype_eqb (fst a) (fst b) && beq (snd a) (snd b).

(* what the body of the loop does with a line, in the order of the tests in the code *)
Inductive request :=
| QDecodeError                       (* UnicodeDecodeError from .decode("ascii") *)
| QProbe                             (* cmd == "PROBE": continue (before the rtype test) *)
| QBadType                           (* rtype not in _CLEANUP_FUNCS: ValueError *)
| QRegister (t : rtype) (n : bytes)
| QUnregister (t : rtype) (n : bytes)
| QMaybeUnlink (t : rtype) (n : bytes)
| QBadCmd.                           (* RuntimeError("unrecognized command") *)

Definition classify (l : line) : request :=
  match parse l with
  | PDecodeError => QDecodeError
  | PFields cmd name rt =>
      if beq cmd b_PROBE then QProbe
      else match rtype_of rt with
           | None => QBadType
           | Some t =>
               if beq cmd b_REGISTER then QRegister t name
               else if beq cmd b_UNREGISTER then QUnregister t name
               else if beq cmd b_MAYBE_UNLINK then QMaybeUnlink t name
               else QBadCmd
           end
  end.

(* ---------------------------------------------------------------- dict and registry *)
Definition dict := list (bytes * Z).

Fixpoint d_get (d : dict) (k : bytes) : option Z :=
  match d with
  | [] => None
  | (k', v) :: t => if beq k k' then Some v else d_get t k
  end.

(* d[k] = v : in place when the key exists, appended otherwise (insertion order) *)
Fixpoint d_set (d : dict) (k : bytes) (v : Z) : dict :=
  match d with
  | [] => [(k, v)]
  | (k', v') :: t => if beq k k' then (k', v) :: t else (k', v') :: d_set t k v
  end.

(* del d[k] for a key that is present *)
Fixpoint d_del (d : dict) (k : bytes) : dict :=
  match d with
  | [] => []
  | (k', v') :: t => if beq k k' then t else (k', v') :: d_del t k
  end.

Definition d_keys (d : dict) : list bytes := map fst d.

Record registry := { rg_folder : dict; rg_file : dict; rg_semlock : dict }.

Definition init : registry := {| rg_folder := []; rg_file := []; rg_semlock := [] |}.

Definition reg_get (r : registry) (t : rtype) : dict :=
  match t with Folder => rg_folder r | File => rg_file r | Semlock => rg_semlock r end.

Definition reg_put (r : registry) (t : rtype) (d : dict) : registry :=
  match t with
  | Folder => {| rg_folder := d; rg_file := rg_file r; rg_semlock := rg_semlock r |}
  | File => {| rg_folder := rg_folder r; rg_file := d; rg_semlock := rg_semlock r |}
  | Semlock => {| rg_folder := rg_folder r; rg_file := rg_file r; rg_semlock := d |}
  end.

Definition lookup (r : registry) (k : key) : option Z := d_get (reg_get r (fst k)) (snd k).

(* ---------------------------------------------------------------- one iteration of the loop *)
(* what sys.excepthook gets to print *)
Inductive err :=
| EDecode        (* UnicodeDecodeError *)
| EUnknownType   (* ValueError *)
| EUnknownCmd    (* RuntimeError *)
| EKey           (* KeyError: UNREGISTER / MAYBE_UNLINK of a name that is not in the registry *)
| EWarning.      (* the clean-up function raised and warnings.warn raised in turn (-W error) *)

Definition outcome := (registry * list deletion * option err)%type.

(* the body of the loop once the line has been classified *)
Definition step_req (w : bool) (cf : deletion -> bool) (r : registry) (q : request) : outcome :=
  match q with
  | QDecodeError => (r, [], Some EDecode)
  | QProbe => (r, [], None)
  | QBadType => (r, [], Some EUnknownType)
  | QBadCmd => (r, [], Some EUnknownCmd)
  | QRegister t n =>
      let d := reg_get r t in
      (reg_put r t (match d_get d n with
                    | None => d_set d n 1
                    | Some c => d_set d n (c + 1)
                    end), [], None)
  | QUnregister t n =>
      let d := reg_get r t in
      match d_get d n with
      | None => (r, [], Some EKey)                       (* del registry[rtype][name] *)
      | Some _ => (reg_put r t (d_del d n), [], None)
      end
  | QMaybeUnlink t n =>
      let d := reg_get r t in
      match d_get d n with
      | None => (r, [], Some EKey)                       (* registry[rtype][name] -= 1 *)
      | Some c =>
          let d1 := d_set d n (c - 1) in
          if c - 1 =? 0
          then (reg_put r t (d_del d1 n), [(t, n)],      (* del, then _CLEANUP_FUNCS[rtype](name) *)
                if cf (t, n) && w then Some EWarning else None)
          else (reg_put r t d1, [], None)
      end
  end.

Definition step (w : bool) (cf : deletion -> bool) (r : registry) (l : line) : outcome :=
  step_req w cf r (classify l).

Definition o_reg (o : outcome) : registry := fst (fst o).
Definition o_del (o : outcome) : list deletion := snd (fst o).
Definition o_err (o : outcome) : option err := snd o.

(* the loop: registry after all lines, and what each iteration deleted / logged *)
Definition run (w : bool) (cf : deletion -> bool) (r : registry) (ls : list line) : registry :=
  fold_left (fun r l => o_reg (step w cf r l)) ls r.

Fixpoint trace (w : bool) (cf : deletion -> bool) (r : registry) (ls : list line)
  : list (list deletion * option err) :=
  match ls with
  | [] => []
  | l :: t => let o := step w cf r l in (o_del o, o_err o) :: trace w cf (o_reg o) t
  end.

(* ---------------------------------------------------------------- EOF: the finally block *)
Definition keys_of (r : registry) (t : rtype) : list deletion := map (fun n => (t, n)) (d_keys (reg_get r t)).

(* registry.items() is folder, file, semlock; folder is skipped in the first loop and done last *)
Definition pending (r : registry) : list deletion :=
  keys_of r File ++ keys_of r Semlock ++ keys_of r Folder.

(* _unlink_resources: each name is attempted; a raising clean-up function is reported through
   warnings.warn, which is not itself protected: if it raises, the finally block is left *)
Fixpoint cleanup_all (w : bool) (cf : deletion -> bool) (ds : list deletion) : list deletion * bool :=
  match ds with
  | [] => ([], false)
  | d :: t => if cf d && w then ([d], true)
              else let '(r, a) := cleanup_all w cf t in (d :: r, a)
  end.

(* clean-up calls made at EOF, in order, and whether main() was left by an exception *)
Definition finish (w : bool) (cf : deletion -> bool) (r : registry) : list deletion * bool :=
  cleanup_all w cf (pending r).

(* the whole of main(fd) on a byte stream *)
Definition main (w : bool) (cf : deletion -> bool) (s : bytes)
  : list (list deletion * option err) * (list deletion * bool) :=
  let ls := readlines s in
  (trace w cf init ls, finish w cf (run w cf init ls)).

(* ---------------------------------------------------------------- the specification side *)
(* reference count of one key as the property states it: registers minus maybe-unlinks since the
   last reset (UNREGISTER, or reaching zero); a MAYBE_UNLINK at zero changes nothing *)
Definition cnt_step (k : key) (c : Z) (q : request) : Z :=
  match q with
  | QRegister t n => if key_eqb (t, n) k then c + 1 else c
  | QUnregister t n => if key_eqb (t, n) k then 0 else c
  | QMaybeUnlink t n => if key_eqb (t, n) k then (if 0 <? c then c - 1 else c) else c
  | _ => c
  end.

Definition count_from (c : Z) (ls : list line) (k : key) : Z :=
  fold_left (fun c l => cnt_step k c (classify l)) ls c.

Definition count (ls : list line) (k : key) : Z := count_from 0 ls k.

Definition is_folder (d : deletion) : bool := rtype_eqb (fst d) Folder.

(* ---------------------------------------------------------------- the client's side of the pipe *)
(* multiprocessing.resource_tracker.ResourceTracker._send (CPython 3.12):
     msg = '{0}:{1}:{2}\n'.format(cmd, name, rtype).encode('ascii')     (UnicodeEncodeError if not ASCII)
     if len(msg) > 512: raise ValueError('msg too long')               (PIPE_BUF: the write is atomic)
     os.write(self._fd, msg) *)
Definition client_msg (cmd name : bytes) (t : rtype) : line :=
  cmd ++ 58 :: name ++ 58 :: rtype_name t ++ [10].

Definition send_accepts (cmd name : bytes) (t : rtype) : bool :=
  is_ascii name && (Z.of_nat (List.length (client_msg cmd name t)) <=? 512).
