(* C16 -- generator outputs: prompt, in the promised order, safe to abandon (model M1). *)
From Coq Require Import List Arith Sorting.Permutation.
Require Import JV.Model.ParallelCore JV.Proofs.ParallelInv1 JV.Proofs.ParallelInv4 JV.Proofs.ParallelMisc
               JV.Proofs.ParallelUnordered.
Require Import JV.Proofs.ParallelStable.
Import ListNotations.

(* calling the object again during an unfinished run raises RuntimeError and changes nothing *)
Theorem C16_overlap_rejected : forall g s cf n f,
  running s = true -> step g s (ECall cf n f) = (s, [Raised ErrRuntime]).
Proof. exact overlap_rejected. Qed.
Print Assumptions C16_overlap_rejected.

(* promptness: as soon as the oldest undelivered batch has completed, a waiting consumer gets its first
   value -- no further completion event is needed *)
Theorem C16_prompt : forall s j js v vs,
  want s = true -> phase s = Retrieving -> pend_out s = [] -> aborting s = false ->
  (iterating s = true \/ n_comp s < n_disp s) ->
  jobs s = j :: js -> status_of s j = Done -> tasks_of s j = v :: vs ->
  snd (try_advance s) = Some (Val v).
Proof. exact head_done_is_delivered. Qed.
Print Assumptions C16_prompt.

(* ordered generator: the stream is always a prefix of the submission order *)
Theorem C16_ordered_prefix : forall s, reach s -> mode (c s) = Ordered -> ifail s = None ->
  exception s = false -> abandoned s = false ->
  exists rest, delivered s ++ rest = seq 0 (taken s) /\ taken s <= N s.
Proof. exact ordered_output_is_prefix. Qed.
Print Assumptions C16_ordered_prefix.

(* closing the generator inside the retrieval loop sets the abort flag, after which nothing is taken
   from the input and nothing is submitted (C09_stop_after_abort), and the object is not running *)
Theorem C16_close_aborts : forall s, phase s = Retrieving ->
  let s' := fst (step true s EClose) in
  aborting s' = true /\ running s' = false /\ phase s' = Finished /\ jobs s' = [].
Proof. intros s H. unfold step. cbn [step_raw]. rewrite H. cbn. rewrite Bool.orb_true_r. auto. Qed.
Print Assumptions C16_close_aborts.

(* generator_unordered: when the call ends normally every result has been delivered exactly once
   (a permutation of the sequential results), whatever the completion order and the schedule *)
Theorem C16_unordered_exactly_once : forall s, reach s -> mode (c s) = Unordered -> ifail s = None ->
  phase s = Finished -> exception s = false -> abandoned s = false ->
  Permutation (delivered s) (seq 0 (N s)) /\ NoDup (delivered s).
Proof. exact unordered_output_complete. Qed.
Print Assumptions C16_unordered_exactly_once.

(* ... and at every moment before that nothing was delivered twice and nothing that was not taken *)
Theorem C16_unordered_sound : forall s, reach s -> mode (c s) = Unordered -> ifail s = None ->
  exception s = false -> abandoned s = false ->
  NoDup (delivered s) /\ incl (delivered s) (seq 0 (taken s)).
Proof. exact unordered_output_sound. Qed.
Print Assumptions C16_unordered_sound.

(* Below the granularity of the model: in _retrieve the consumer reads _jobs[0] and its status WITHOUT the lock and
   only then takes the lock to pop.  What it read stays true under interference: no event of another thread
   (caller dispatch, either section of any completion callback) removes or replaces the head of the queue, changes a
   status that is no longer Pending, lowers the abort flag or invalidates a tracker id -- which is what makes the
   check-then-act of the retrieval loop, and its treatment as one atomic event, sound. *)
Theorem C16_unlocked_reads_are_stable : forall s e, reach s -> wf_ev e -> interference e -> want s = false ->
  head_kept s (fst (step true s e)).
Proof. exact unlocked_reads_are_stable. Qed.
Print Assumptions C16_unlocked_reads_are_stable.

(* ---- the sequential path (n_jobs resolves to 1): Model/ParallelSeq.v, proofs in Proofs/SeqThm.v *)
Require Import JV.Model.ParallelSeq JV.Proofs.SeqThm.

Theorem C16_seq_path_yields_in_order : forall s, qreach s ->
  qdelivered s = seq 0 (length (qdelivered s)) /\
  forall s1 v, qstep s QNext = (s1, [QVal v]) -> v = length (qdelivered s) /\ qdelivered s1 = qdelivered s ++ [v].
Proof. exact seq_generator_yields_in_order. Qed.
Print Assumptions C16_seq_path_yields_in_order.

(* safe to abandon: closing or dropping the generator at any point stops the consumption and releases the object *)
Theorem C16_seq_path_close_releases : forall s, qreach s ->
  qrunning (fst (qstep s QClose)) = false /\ qalive (fst (qstep s QClose)) = false /\
  qtaken (fst (qstep s QClose)) = qtaken s.
Proof. exact seq_close_releases. Qed.
Print Assumptions C16_seq_path_close_releases.

Theorem C16_seq_path_busy_call_is_refused : forall s cf, qrunning s = true -> qstep s (QCall cf) = (s, [QRaised ErrRuntime]).
Proof. exact seq_busy_call_is_refused. Qed.
Print Assumptions C16_seq_path_busy_call_is_refused.
