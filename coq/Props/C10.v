From Coq Require Import ZArith List Bool Arith.
Require Import JV.Model.LokyExec JV.Proofs.LokyExec.
Import ListNotations.

Theorem C10_midsend_witness : mgr (run (new_exec 2 5 0) midsend_trace) = Stuck /\
                      futs (run (new_exec 2 5 0) midsend_trace) 0 = FRunning.
Proof. exact midsend_stuck. Qed.
