(* C10 -- a dying loky worker yields a prompt error, never a hang, and workers heal.   PARTIAL.

   Model M10b (Model/LokyExec.v): the failure-handling logic of loky's _ExecutorManagerThread
   (wait_result_broken_or_wakeup / process_result_item / terminate_broken / flag_executor_shutting_down),
   ProcessPoolExecutor.submit, get_reusable_executor, LokyBackend.abort_everything and the part of
   Parallel that reacts to a failed future.  Every theorem quantifies over ALL event sequences
   (submissions, manager iterations, worker steps, deaths at any time, shutdowns) -- by induction.

   NOT proved (outside any Coq model): that the OS makes a dead worker's sentinel readable, pipe
   semantics, latency, fairness of the manager thread.  NOT proved although in the model:
   C10_one_call_per_fault (only its ingredients C10_heal and C10_exit_submit_raises; the count itself is
   sampled by the fault-injection harness), and that the manager never dies of KeyError in
   add_call_item_to_queue.  The full property is REFUTED for one kill instant: C10_midsend_refuted (F27).

   This file contains only the property theorems; proofs are in Proofs/Loky*.v. *)
From Coq Require Import ZArith List Bool Arith.
Require Import JV.Model.LokyExec JV.Model.LokyDrive JV.Model.LokyLock JV.Proofs.LokyExec JV.Proofs.LokyExec2
               JV.Proofs.LokyExec3 JV.Proofs.LokyPool JV.Proofs.LokyLock.
Import ListNotations.

(* reachable e : e = run (new_exec mw qc pid0) evs for some parameters and some event list *)

(* When the manager wakes up with only a dead worker's sentinel to read, the executor is flagged
   broken and shut down, the manager exits, every worker is killed, and NO future is left pending:
   each unfinished one now holds TerminatedWorkerError, each finished one keeps what it held. *)
Theorem C10_fail_all : forall e, reachable e -> sees_only_sentinel e ->
  let e' := step e ManagerWake in
  broken e' = Some TerminatedWorkerError /\ shutdown e' = true /\ mgr e' = Exited /\ pending e' = [] /\ procs e' = [] /\
  (forall id, id < nfut e -> finished (futs e id) = false -> futs e' id = FExc (PoolError TerminatedWorkerError)) /\
  (forall id, finished (futs e id) = true -> futs e' id = futs e id) /\
  (forall id, id < nfut e' -> finished (futs e' id) = true).
Proof. exact fail_all. Qed.
Print Assumptions C10_fail_all.

Example C10_fail_all_satisfiable :
  let e := run (new_exec 2 5 0) [Submit; Submit; Submit; Feed; ManagerWake; Feed; Take 0; Take 1; Result 1 7; ManagerWake;
                                 Feed; Die 0] in
  sees_only_sentinel e /\ futs e 0 = FRunning /\ futs e 1 = FResult 7 /\ futs e 2 = FRunning /\
  futs (step e ManagerWake) 0 = FExc (PoolError TerminatedWorkerError) /\ futs (step e ManagerWake) 1 = FResult 7.
Proof. vm_compute. repeat split; reflexivity. Qed.
Print Assumptions C10_fail_all_satisfiable.

(* Whatever happened before, in whatever order: once the manager thread has exited no future is
   unfinished (so a caller waiting on futures is never left waiting by an exited manager) ... *)
Theorem C10_exit_all_finished : forall e, reachable e -> mgr e = Exited ->
  forall id, id < nfut e -> finished (futs e id) = true.
Proof. exact exit_all_finished. Qed.
Print Assumptions C10_exit_all_finished.

(* ... and every later submission raises instead of queueing work nobody will run *)
Theorem C10_exit_submit_raises : forall e, reachable e -> mgr e = Exited -> exists x, submit e = (e, SRaise x).
Proof. exact exit_submit_raises. Qed.
Print Assumptions C10_exit_submit_raises.

(* "or its earlier result": a finished future never changes again, over all continuations *)
Theorem C10_results_stable : forall e evs id, reachable e -> id < nfut e -> finished (futs e id) = true ->
  futs (run e evs) id = futs e id.
Proof. exact results_stable. Qed.
Print Assumptions C10_results_stable.

(* the bookkeeping of futures stays consistent over all event sequences: pending = the unfinished
   futures, without duplicates; hence set_exception/set_result never hit a finished future
   (no InvalidStateError in terminate_broken / process_result_item / flag_executor_shutting_down) *)
Theorem C10_bookkeeping : forall e, reachable e -> wf e.
Proof. exact reachable_wf. Qed.
Print Assumptions C10_bookkeeping.

(* A call one of whose futures was failed (by C10_fail_all: every future unfinished when the death is
   handled) can only end by raising: over all continuations it is either still running with that
   failed future, or it ended with ORaise -- it never returns a result list. *)
Theorem C10_no_partial : forall evs s, pinv s -> doomed s ->
  (doomed (prun s evs) /\ outcomes (prun s evs) = outcomes s) \/
  (exists evs1 ev evs2 x, evs = evs1 ++ ev :: evs2 /\ outcomes (prun s (evs1 ++ [ev])) = ORaise x :: outcomes s /\
                          outcomes (prun s evs1) = outcomes s).
Proof. exact no_partial. Qed.
Print Assumptions C10_no_partial.

(* pinv holds of every pool state reachable from the initial one *)
Theorem C10_pool_invariant : forall evs mw qc, pinv (prun (init_pool mw qc) evs).
Proof.
  intros evs mw qc. assert (P0 : pinv (init_pool mw qc)) by reflexivity.
  revert P0. generalize (init_pool mw qc). induction evs as [|ev t IH]; intros s P; [exact P|].
  apply IH. apply pinv_step. exact P.
Qed.
Print Assumptions C10_pool_invariant.

Example C10_no_partial_satisfiable :
  let s := prun (init_pool 2 5) [CallBegin 3; Dispatch; Dispatch; Dispatch; Ex Feed; Ex ManagerWake; Ex Feed;
                                 Ex (Take 0); Ex (Take 1); Ex (Result 1 7); Ex ManagerWake; Ex Feed; Ex (Die 0);
                                 Ex ManagerWake] in
  doomed s /\ outcomes (prun s [Poll; Ex Feed; Ex ManagerWake; AbortJoin]) = [ORaise (PoolError TerminatedWorkerError)].
Proof.
  cbn zeta. split; [|vm_compute; reflexivity].
  eexists _, _, 0, _. vm_compute. repeat split; try reflexivity. left; reflexivity.
Qed.
Print Assumptions C10_no_partial_satisfiable.

(* get_reusable_executor never hands back a broken or shut-down executor: when it returns, the
   executor is pristine (not broken, not shut down, no process yet, no fault), its pids start beyond
   every pid of the old one, and the old manager thread is gone *)
Theorem C10_heal : forall s e s', cur s = Some e -> (broken e <> None \/ shutdown e = true) ->
  get_reusable s = (s', true) ->
  exists e', cur s' = Some e' /\ e' = new_exec (p_maxw s) (p_qcap s) (pidc e) /\
             broken e' = None /\ shutdown e' = false /\ procs e' = [] /\ faulted e' = false /\ mgr e' = NotStarted /\
             mgr_gone e = true.
Proof. exact heal. Qed.
Print Assumptions C10_heal.

(* REFUTED instant (finding F27): a worker killed after writing part of its result message.
   Full statement that fails:  forall reachable e with a dead worker in procs, the manager eventually
   flags the executor broken and fails every pending future.
   Witness: the manager blocks in recv() for ever; for ALL continuations future 0 stays running and the
   executor is never flagged broken although a process of the executor is dead. *)
Theorem C10_midsend_refuted :
  let e := run (new_exec 2 5 0) midsend_trace in
  reachable e /\ (exists p, wk e p = WDead /\ In p (procs e)) /\
  forall evs, mgr (run e evs) = Stuck /\ futs (run e evs) 0 = FRunning /\ broken (run e evs) = broken e.
Proof. exact midsend_refuted. Qed.
Print Assumptions C10_midsend_refuted.

(* Witness of the behaviour BEFORE fix F38 (commit fd55ac3; was finding F28 of this builder): workers
   (re)spawned by a submit after the manager thread went back to wait().  The code now issues a second wakeup()
   after spawning (C10_respawn_death_noticed below proves that this suffices); this theorem documents what the
   stale sentinel list did.  submit() wakes the manager up and only then spawns the missing workers; the manager handles the
   wake-up and blocks again on the sentinels of the processes that existed at that moment.  A death of a new
   worker is then not noticed until another event arrives (a result, a submit, another worker's idle time-out:
   300 s by default).  [manager_wake_watch w] is the manager with the sentinel list w captured on entering wait;
   the model's [manager_wake] is the instance w = procs e. *)
Theorem C10_stale_watch_refuted :
  let e := run (new_exec 2 5 0) stale_trace in
  reachable e /\ sees_only_sentinel e /\ futs e 1 = FRunning /\
  manager_wake_watch [] e = e /\ broken (manager_wake e) = Some TerminatedWorkerError.
Proof. exact stale_watch_refuted. Qed.

Theorem C10_watch_current_is_model : forall e, manager_wake_watch (procs e) e = manager_wake e.
Proof. exact manager_wake_watch_current. Qed.

(* A worker that dies while the manager thread is NOT in wait() (busy un-pickling another result, running
   callbacks, feeding the call queue) is seen at the next wait: the sentinel test is level-triggered over all
   of _processes.  Together with C10_fail_all this covers "deaths accumulate while the manager is busy". *)
Theorem C10_busy_death_noticed : forall e p, In p (procs e) -> is_proc e p = true ->
  sentinel_ready (worker_die p e) = true /\ sentinel_ready (manager_feed (worker_die p e)) = true.
Proof. exact busy_death_noticed. Qed.

(* The model's [Submit] is one atomic event because submit() holds shutdown_lock from its broken/shutdown
   check to the registration of the work item and flag_as_broken takes the same lock
   (submit = submit_check then submit_register). *)
Theorem C10_submit_is_check_then_register : forall e,
  submit e = match submit_check e with Some x => (e, SRaise x) | None => (submit_register e, SOk (nfut e)) end.
Proof. exact submit_split. Qed.

(* Without that lock the interleaving  check ; terminate_broken ; register  would leave a future that nobody
   completes although the manager has exited -- the situation C10_exit_all_finished excludes for the locked code.
   (Kill instant "idle worker dies during the next call's only submit" of the harness.) *)
Theorem C10_unlocked_submit_would_lose_a_future :
  mgr unlocked_trace_state = Exited /\ broken unlocked_trace_state = Some TerminatedWorkerError /\
  futs unlocked_trace_state 1 = FPending /\ 1 < nfut unlocked_trace_state.
Proof. exact unlocked_submit_loses_future. Qed.

(* ---------------------------------------------------------------------------------------------------
   M10c (Model/LokyLock.v): submit and terminate_broken split at the points where the other thread can run,
   with an explicit shutdown_lock and the sentinel list captured on entering wait().  All statements are
   over ALL interleavings (induction on the fine-grained event list). *)

(* The lock discipline.  submit holds shutdown_lock from its check to its return and flag_as_broken takes
   the same lock: however the two halves of submit interleave with decision / flag / fail-all of
   terminate_broken, an exited manager leaves no unfinished future (so no caller waits for ever). *)
Theorem C10_lock_discipline : forall c evs mw qc p0, locked c = true ->
  let st := frun c (finit mw qc p0) evs in
  mgr (ex st) = Exited -> forall id, id < nfut (ex st) -> finished (futs (ex st) id) = true.
Proof. exact lock_discipline. Qed.

(* ... and the lock is needed: with flag_as_broken outside the lock (seeded defect C10-4) the schedule
   check ; decision ; flag ; fail-all ; register leaves future 1 pending with the manager gone, whereas with
   the lock the same schedule keeps the manager waiting for the lock until the submit has registered. *)
Theorem C10_unlocked_flag_refuted :
  let bad := frun unlocked_flag (finit 2 5 0) unlocked_trace in
  let good := frun the_code (finit 2 5 0) unlocked_trace in
  (mgr (ex bad) = Exited /\ futs (ex bad) 1 = FPending /\ 1 < nfut (ex bad)) /\
  (mx good = MBreak1 TerminatedWorkerError /\ pending (ex good) = [0; 1] /\ broken (ex good) = None).
Proof. exact unlocked_refuted. Qed.

(* The wake-up order (fix F38).  Invariant: whenever the manager is blocked in wait(), every process of the
   executor is in the sentinel list it waits on, or a wake-up is pending. *)
Theorem C10_watch_invariant : forall c evs mw qc p0, rewake c = true -> FW (frun c (finit mw qc p0) evs).
Proof. intros c evs mw qc p0 H. apply FW_run; [exact H | apply FW_init]. Qed.

(* Hence a manager that waits with nothing to read notices a dead process of the executor at that very
   wake-up, however the submits that (re)spawned workers were interleaved with it. *)
Theorem C10_respawn_death_noticed : forall c evs mw qc p0 p, rewake c = true ->
  let st := frun c (finit mw qc p0) evs in
  mgr (ex st) = AtWait -> mx st = MNormal -> resq (ex st) = [] -> wakeup (ex st) = false ->
  In p (procs (ex st)) -> wk (ex st) p = WDead ->
  mx (fstep c st FWake) = MBreak1 TerminatedWorkerError.
Proof. exact respawn_death_noticed. Qed.

(* ... and the second wakeup() is needed: without it (the code before F38) the schedule "all workers retire;
   submit registers and wakes the manager; the manager is back in wait(); submit spawns; the new worker
   takes the task and dies" blocks the manager for ever; with it the manager is re-woken and notices. *)
Theorem C10_before_F38_refuted :
  let old := frun before_F38 (finit 2 5 0) before_F38_trace in
  let new := frun the_code (finit 2 5 0) before_F38_trace in
  (mgr (ex old) = AtWait /\ mx old = MNormal /\ resq (ex old) = [] /\ wakeup (ex old) = false /\
   In 2 (procs (ex old)) /\ wk (ex old) 2 = WDead /\ futs (ex old) 1 = FRunning /\
   fstep before_F38 old FWake = old) /\
  (wakeup (ex new) = true /\
   mx (frun the_code new [FWake; FFeed; FWake]) = MBreak1 TerminatedWorkerError).
Proof. exact before_F38_refuted. Qed.

(* The lock ORDER (two locks: Parallel._lock = P, held by a dispatching caller around submit; shutdown_lock = S).
   The done-callbacks take P.  In the code the manager takes S only inside flag_as_broken and releases it before it
   runs any callback (FFlag and FFailAll are different steps; no callback runs in FFlag): so it never holds S between
   two of its steps, a dispatching caller is never kept out of submit by the manager, no state is deadlocked, and
   the invariants of M10c are untouched by the P-lock (the wrapper only delays FFailAll while the caller dispatches).
   Tie to the code: the lock probe of the harness (shutdown_lock wrapped with an owner-recording proxy, every
   completion callback asserts that its thread does not own it). *)
Theorem C10_lock_order_no_deadlock : forall c st d,
  gstep false c (st, d) (GF FCheck) = (fstep c st FCheck, d) /\ deadlocked false (st, d) = false.
Proof. exact caller_never_blocked_by_manager. Qed.

Theorem C10_lock_discipline_with_dispatch_lock : forall cbl c evs mw qc p0, locked c = true ->
  FI (fst (grun cbl c (finit mw qc p0, false) evs)).
Proof. intros cbl c evs mw qc p0 H. apply FI_grun; [exact H | apply FI_init]. Qed.

(* seeded defect C10-14: the fail-all loop of terminate_broken under shutdown_lock.  The caller dispatches (holds P),
   a worker dies, the manager flags under S and keeps S for the callbacks, which need P: both threads are blocked
   for ever with future 0 running; with the real order the same schedule blocks nobody and the future is failed. *)
Theorem C10_callbacks_under_lock_refuted :
  let g := grun true the_code (finit 2 5 0, false) deadlock_trace in
  deadlocked true g = true /\ futs (ex (fst g)) 0 = FRunning /\
  gstep true the_code g (GF FCheck) = g /\ gstep true the_code g (GF FFailAll) = g /\
  (let h := grun false the_code (finit 2 5 0, false) deadlock_trace in
   deadlocked false h = false /\
   futs (ex (fst (grun false the_code h [GF FCheck; GDispatchEnd; GF FFailAll]))) 0 = FExc (PoolError TerminatedWorkerError)).
Proof. exact callbacks_under_lock_deadlock. Qed.

(* A worker that dies AFTER its whole result message was written: which outcome the affected call has is a
   race between the results of the other workers and the manager thread noticing the sentinel
   (wait_result_broken_or_wakeup reads the result pipe first).  Both schedules are event sequences of the
   model, so every theorem above covers both; here they are, for the scenario the race was observed on
   (n_jobs = 4, 5 tasks, victim = task 0): in one the death is masked until the call has returned its 5 results
   (class 0) and the executor is replaced silently, in the other the manager handles the death while tasks of the
   call are pending and the call raises TerminatedWorkerError (class 1).  In both, at most one call fails, the
   failure is the worker-termination error, no call is left blocked and the follow-up calls run on fresh
   processes: both branches satisfy the C10 statement. *)
Example C10_after_send_both_schedules :
  let prefix := [MCall 5 5 []; MRounds 13] in
  let suffix := [MRounds 13; MCall 5 5 []; MRounds 13; MCall 5 5 []; MRounds 13] in
  show (drive 4 33 (prefix ++ MCall 5 5 [(0, TAfterSend)] :: suffix))
    = ([(0, 5); (0, 5); (0, 5); (0, 5)]%Z, (false, false, true)) /\
  show (drive 4 33 (prefix ++ MCall 5 5 [(0, TAfterSendSeen)] :: suffix))
    = ([(0, 5); (1, 0); (0, 5); (0, 5)]%Z, (false, false, true)).
Proof. vm_compute. split; reflexivity. Qed.
