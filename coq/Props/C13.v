(* C13 -- joblib's compressed file objects (compressor.BinaryZlibFile / BinaryGzipFile) behave
   exactly like a plain byte stream.

   Model: Model/ZlibFile.v (M6), written statement by statement from the class.  The raw file and
   zlib.decompressobj are data (a [script]: what the decompressor outputs for each _BUFFER_SIZE
   block, where the end marker is, what follows it); zlib.compressobj is a Section variable.
   [run_new fuel file ops st] executes a history of read(n) / read() / readinto / seek (3 whence
   modes) / tell / close / write; [ref_run D ops] is the reference: io.BytesIO over the payload D
   with seeks clamped to the end, and is undefined exactly when a seek targets a position before
   the start.  [fuel_for file] = number of raw blocks + 3.

   This file contains only the property theorems; proofs are in Proofs/ZlibFile*.v. *)
From Coq Require Import ZArith List.
Require Import JV.Base.PyPrelude JV.Model.ZlibFile JV.Proofs.ZlibFile JV.Proofs.ZlibFileWrite JV.Proofs.ZlibFileOps
               JV.Gen.C13_Constants.
Import ListNotations.
Open Scope Z_scope.

(* For every script -- every block structure, empty blocks included, truncated or complete with
   any trailer -- and every history in scope: the file object returns what the reference stream
   over the payload returns, operation by operation, ends at the same position, and no operation
   runs out of fuel. *)
Theorem C13_refines_stream : forall s ops routs rs fuel,
  ref_run (payload s) ops ref_init = Some (routs, rs) ->
  (fuel_for (file_of s) <= fuel)%nat ->
  exists st', run_new fuel (file_of s) ops (init_state (file_of s)) = Some (routs, st') /\
              (if rclosed rs then mode st' = MClosed else pos st' = rpos rs).
Proof. exact refines_stream. Qed.
Print Assumptions C13_refines_stream.

(* Writing any chunk sequence (with tell() anywhere in between) at any level and closing: every
   write returns the chunk length, tell the running total, and the bytes handed to the underlying
   file are compress(d1) ++ ... ++ compress(dn) ++ flush(), which the standard decoder expands to
   d1 ++ ... ++ dn (hypothesis on zlib: inflate_deflate). *)
Theorem C13_write : forall (C : Type) (compress : C -> bytes -> C * bytes) (flush : C -> bytes)
    (inflate : bytes -> option bytes) (cinit : Z -> C),
  (forall level chunks, 1 <= level <= 9 ->
     inflate (deflate_chunks C compress flush (cinit level) chunks) = Some (concat chunks)) ->
  forall level evs, 1 <= level <= 9 ->
  exists cf file,
    wrun C compress flush (map ev_op evs ++ [WClose]) (winit C (cinit level)) =
      (ev_results 0 evs ++ [VNone], mkW C MClosed (len (concat (ev_chunks evs))) cf file) /\
    inflate file = Some (concat (ev_chunks evs)).
Proof. exact write_stream_decodes. Qed.
Print Assumptions C13_write.

(* ---------------------------------------------------------------------------------------------------
   The same statement operation by operation.  [Sim s st rs] relates a state [st] of the file object over
   the file of script [s] to a state [rs] = (position, closed flag) of the abstract byte stream over
   [payload s]; it holds when the file is opened (C13_open) and every operation below preserves it, so it
   holds in every reachable state.  F is any fuel >= fuel_for (file_of s). *)

Theorem C13_open : forall s, Sim s (init_state (file_of s)) ref_init.
Proof. exact op_open. Qed.
Print Assumptions C13_open.

(* read(n), n > 0 *)
Theorem C13_read : forall s F, (fuel_for (file_of s) <= F)%nat -> forall st rs, Sim s st rs -> rclosed rs = false ->
  forall n, 0 < n ->
  exists st', do_read fill_buffer F n st = Some (VBytes (zfirstn n (zskipn (rpos rs) (payload s))), st') /\
              Sim s st' (mkRef (rpos rs + len (zfirstn n (zskipn (rpos rs) (payload s)))) false).
Proof. exact op_read_n. Qed.
Print Assumptions C13_read.

(* read() / read(-1) *)
Theorem C13_read_all : forall s F, (fuel_for (file_of s) <= F)%nat -> forall st rs, Sim s st rs -> rclosed rs = false ->
  forall n, n < 0 ->
  exists st', do_read fill_buffer F n st = Some (VBytes (zskipn (rpos rs) (payload s)), st') /\
              Sim s st' (mkRef (len (payload s)) false).
Proof. exact op_read_all. Qed.
Print Assumptions C13_read_all.

Theorem C13_read_zero : forall s F, (fuel_for (file_of s) <= F)%nat -> forall st rs, Sim s st rs -> rclosed rs = false ->
  exists st', do_read fill_buffer F 0 st = Some (VBytes [], st') /\ Sim s st' rs.
Proof. exact op_read_zero. Qed.
Print Assumptions C13_read_zero.

(* readinto(b), len(b) = n > 0 *)
Theorem C13_readinto : forall s F, (fuel_for (file_of s) <= F)%nat -> forall st rs, Sim s st rs -> rclosed rs = false ->
  forall n, 0 < n ->
  exists st', do_readinto fill_buffer F n st = Some (VInto (zfirstn n (zskipn (rpos rs) (payload s))), st') /\
              Sim s st' (mkRef (rpos rs + len (zfirstn n (zskipn (rpos rs) (payload s)))) false).
Proof. exact op_readinto. Qed.
Print Assumptions C13_readinto.

(* readinto(b) with a read-only b: TypeError before anything is read (open or closed), as io.BytesIO *)
Theorem C13_readinto_readonly : forall fillb F file st,
  step fillb F file OReadintoRO st = Some (VExc TypeError, st) /\
  forall D rs, ref_step D OReadintoRO rs = Some (VExc TypeError, rs).
Proof. exact op_readinto_readonly. Qed.
Print Assumptions C13_readinto_readonly.

(* seek(k, 0): forwards, backwards (rewind + skip), beyond the end (clamped) *)
Theorem C13_seek_set : forall s F, (fuel_for (file_of s) <= F)%nat -> forall st rs, Sim s st rs -> rclosed rs = false ->
  forall k, 0 <= k ->
  exists st', do_seek fill_buffer F (file_of s) k 0 st = Some (VInt (Z.min k (len (payload s))), st') /\
              Sim s st' (mkRef (Z.min k (len (payload s))) false).
Proof. exact op_seek_set. Qed.
Print Assumptions C13_seek_set.

Theorem C13_seek_cur : forall s F, (fuel_for (file_of s) <= F)%nat -> forall st rs, Sim s st rs -> rclosed rs = false ->
  forall k, 0 <= rpos rs + k ->
  exists st', do_seek fill_buffer F (file_of s) k 1 st = Some (VInt (Z.min (rpos rs + k) (len (payload s))), st') /\
              Sim s st' (mkRef (Z.min (rpos rs + k) (len (payload s))) false).
Proof. exact op_seek_cur. Qed.
Print Assumptions C13_seek_cur.

Theorem C13_seek_end : forall s F, (fuel_for (file_of s) <= F)%nat -> forall st rs, Sim s st rs -> rclosed rs = false ->
  forall k, 0 <= len (payload s) + k ->
  exists st', do_seek fill_buffer F (file_of s) k 2 st =
                Some (VInt (Z.min (len (payload s) + k) (len (payload s))), st') /\
              Sim s st' (mkRef (Z.min (len (payload s) + k) (len (payload s))) false).
Proof. exact op_seek_end. Qed.
Print Assumptions C13_seek_end.

Theorem C13_seek_bad_whence : forall s F, (fuel_for (file_of s) <= F)%nat -> forall st rs, Sim s st rs ->
  rclosed rs = false -> forall k w, w <> 0 -> w <> 1 -> w <> 2 ->
  exists st', do_seek fill_buffer F (file_of s) k w st = Some (VExc ValueError, st') /\ Sim s st' rs.
Proof. exact op_seek_bad_whence. Qed.
Print Assumptions C13_seek_bad_whence.

Theorem C13_tell : forall s F, (fuel_for (file_of s) <= F)%nat -> forall st rs, Sim s st rs -> rclosed rs = false ->
  do_tell st = (VInt (rpos rs), st).
Proof. exact op_tell. Qed.
Print Assumptions C13_tell.

Theorem C13_close : forall s F, (fuel_for (file_of s) <= F)%nat -> forall st rs, Sim s st rs -> rclosed rs = false ->
  exists st', do_close st = (VNone, st') /\ Sim s st' (mkRef (rpos rs) true).
Proof. exact op_close. Qed.
Print Assumptions C13_close.

Theorem C13_write_on_reader : forall s F, (fuel_for (file_of s) <= F)%nat -> forall st rs, Sim s st rs ->
  rclosed rs = false -> do_write_r st = (VExc UnsupportedOperation, st).
Proof. exact op_write_unsupported. Qed.
Print Assumptions C13_write_on_reader.

(* closed / readable() / writable() / seekable() / flush() on an open reader *)
Theorem C13_queries : forall s st rs, Sim s st rs -> rclosed rs = false ->
  do_query QClosed st = (VBool false, st) /\ do_query QReadable st = (VBool true, st) /\
  do_query QWritable st = (VBool false, st) /\ do_query QSeekable st = (VBool true, st) /\
  do_flush st = (VNone, st).
Proof. exact op_queries. Qed.
Print Assumptions C13_queries.

(* after close(): ValueError from everything, close() idempotent, closed = True; flush() returns None
   (IOBase.flush does not see BinaryZlibFile's own closed state -- io.BytesIO raises ValueError there) *)
Theorem C13_closed : forall s F st rs, Sim s st rs -> rclosed rs = true ->
  (forall n, do_read fill_buffer F n st = Some (VExc ValueError, st)) /\
  (forall n, do_readinto fill_buffer F n st = Some (VExc ValueError, st)) /\
  (forall k w, do_seek fill_buffer F (file_of s) k w st = Some (VExc ValueError, st)) /\
  do_tell st = (VExc ValueError, st) /\ do_write_r st = (VExc ValueError, st) /\
  do_close st = (VNone, st) /\ do_query QClosed st = (VBool true, st) /\
  do_query QReadable st = (VExc ValueError, st) /\ do_query QWritable st = (VExc ValueError, st) /\
  do_query QSeekable st = (VExc ValueError, st) /\ do_flush st = (VNone, st).
Proof. exact op_closed. Qed.
Print Assumptions C13_closed.

(* readline(limit) -- io.IOBase.readline over read(1), loop fuel K > len payload -- is io.BytesIO.readline on
   the abstract stream: the bytes up to and including the first newline, at most `limit` of them if limit >= 0 *)
Theorem C13_readline : forall s F K st rs limit,
  (fuel_for (file_of s) <= F)%nat -> Sim s st rs -> rclosed rs = false -> (len (payload s) < Z.of_nat K) ->
  exists st', do_readline K F limit st = Some (VBytes (ref_readline (zskipn (rpos rs) (payload s)) limit), st') /\
              Sim s st' (mkRef (rpos rs + len (ref_readline (zskipn (rpos rs) (payload s)) limit)) false).
Proof. exact op_readline. Qed.
Print Assumptions C13_readline.

Theorem C13_readline_closed : forall s F K st rs limit, Sim s st rs -> rclosed rs = true -> limit <> 0 ->
  (1 <= K)%nat -> do_readline K F limit st = Some (VExc ValueError, st).
Proof. exact op_readline_closed. Qed.
Print Assumptions C13_readline_closed.

(* ------------------------------------------------------------------ write mode, operation by operation *)
Theorem C13_w_write : forall C (compress : C -> bytes -> C * bytes) (flush : C -> bytes) st d,
  wmode C st = MWrite ->
  wstep C compress flush (WWrite d) st =
  (VInt (len d), mkW C MWrite (wpos C st + len d) (fst (compress (wc C st) d))
                     (wfile C st ++ snd (compress (wc C st) d))).
Proof. exact wop_write. Qed.
Print Assumptions C13_w_write.

Theorem C13_w_tell : forall C (compress : C -> bytes -> C * bytes) (flush : C -> bytes) st,
  wmode C st = MWrite -> wstep C compress flush WTell st = (VInt (wpos C st), st).
Proof. exact wop_tell. Qed.
Print Assumptions C13_w_tell.

Theorem C13_w_close : forall C (compress : C -> bytes -> C * bytes) (flush : C -> bytes) st,
  wmode C st = MWrite ->
  wstep C compress flush WClose st = (VNone, mkW C MClosed (wpos C st) (wc C st) (wfile C st ++ flush (wc C st))).
Proof. exact wop_close. Qed.
Print Assumptions C13_w_close.

Theorem C13_w_unsupported : forall C (compress : C -> bytes -> C * bytes) (flush : C -> bytes) st,
  wmode C st = MWrite ->
  wstep C compress flush WRead st = (VExc UnsupportedOperation, st) /\
  wstep C compress flush WSeek st = (VExc UnsupportedOperation, st).
Proof. exact wop_unsupported. Qed.
Print Assumptions C13_w_unsupported.

Theorem C13_w_queries : forall C (compress : C -> bytes -> C * bytes) (flush : C -> bytes) st,
  wmode C st = MWrite ->
  wstep C compress flush (WQuery QClosed) st = (VBool false, st) /\
  wstep C compress flush (WQuery QReadable) st = (VBool false, st) /\
  wstep C compress flush (WQuery QWritable) st = (VBool true, st) /\
  wstep C compress flush (WQuery QSeekable) st = (VBool false, st) /\
  wstep C compress flush WFlush st = (VNone, st).
Proof. exact wop_queries. Qed.
Print Assumptions C13_w_queries.

Theorem C13_w_closed : forall C (compress : C -> bytes -> C * bytes) (flush : C -> bytes) st,
  wmode C st = MClosed ->
  (forall d, wstep C compress flush (WWrite d) st = (VExc ValueError, st)) /\
  wstep C compress flush WTell st = (VExc ValueError, st) /\ wstep C compress flush WRead st = (VExc ValueError, st) /\
  wstep C compress flush WSeek st = (VExc ValueError, st) /\ wstep C compress flush WClose st = (VNone, st) /\
  wstep C compress flush (WQuery QClosed) st = (VBool true, st) /\
  wstep C compress flush (WQuery QWritable) st = (VExc ValueError, st) /\
  wstep C compress flush (WQuery QReadable) st = (VExc ValueError, st) /\
  wstep C compress flush WFlush st = (VNone, st).
Proof. exact wop_closed. Qed.
Print Assumptions C13_w_closed.

(* the model's mode codes are the live _MODE_* constants (Gen/C13_Constants.v is regenerated from
   joblib/compressor.py on every run), a raw block is at least one byte, zlib and gzip differ only in wbits *)
Theorem C13_constants :
  mode_code MClosed = live_MODE_CLOSED /\ mode_code MRead = live_MODE_READ /\
  mode_code MReadEOF = live_MODE_READ_EOF /\ mode_code MWrite = live_MODE_WRITE /\
  0 < live_BUFFER_SIZE /\ live_zlib_wbits <> live_gzip_wbits.
Proof. exact constants_agree. Qed.
Print Assumptions C13_constants.
