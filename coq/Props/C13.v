(* C13 -- joblib's compressed file objects (compressor.BinaryZlibFile / BinaryGzipFile) behave
   exactly like a plain byte stream.

   Model: Model/ZlibFile.v (M6), written statement by statement from the class.  The raw file and
   zlib.decompressobj are data (a [script]: what the decompressor outputs for each _BUFFER_SIZE
   block, where the end marker is, what follows it); zlib.compressobj is a Section variable.
   [run_new fuel file ops st] executes a history of read(n) / read() / readinto / seek (3 whence
   modes) / tell / close / write; [ref_run D ops] is the reference: io.BytesIO over the payload D
   with seeks clamped to the end, and is undefined exactly when a seek targets a position before
   the start.  [fuel_for file] = number of raw blocks + 3.

   This file contains only the property theorems; proofs are in Proofs/ZlibFile*.v. *)
From Coq Require Import ZArith List.
Require Import JV.Base.PyPrelude JV.Model.ZlibFile JV.Proofs.ZlibFile JV.Proofs.ZlibFileWrite.
Import ListNotations.
Open Scope Z_scope.

(* For every script -- every block structure, empty blocks included, truncated or complete with
   any trailer -- and every history in scope: the file object returns what the reference stream
   over the payload returns, operation by operation, ends at the same position, and no operation
   runs out of fuel. *)
Theorem C13_refines_stream : forall s ops routs rs fuel,
  ref_run (payload s) ops ref_init = Some (routs, rs) ->
  (fuel_for (file_of s) <= fuel)%nat ->
  exists st', run_new fuel (file_of s) ops (init_state (file_of s)) = Some (routs, st') /\
              (if rclosed rs then mode st' = MClosed else pos st' = rpos rs).
Proof. exact refines_stream. Qed.
Print Assumptions C13_refines_stream.

(* Writing any chunk sequence (with tell() anywhere in between) at any level and closing: every
   write returns the chunk length, tell the running total, and the bytes handed to the underlying
   file are compress(d1) ++ ... ++ compress(dn) ++ flush(), which the standard decoder expands to
   d1 ++ ... ++ dn (hypothesis on zlib: inflate_deflate). *)
Theorem C13_write : forall (C : Type) (compress : C -> bytes -> C * bytes) (flush : C -> bytes)
    (inflate : bytes -> option bytes) (cinit : Z -> C),
  (forall level chunks, 1 <= level <= 9 ->
     inflate (deflate_chunks C compress flush (cinit level) chunks) = Some (concat chunks)) ->
  forall level evs, 1 <= level <= 9 ->
  exists cf file,
    wrun C compress flush (map ev_op evs ++ [WClose]) (winit C (cinit level)) =
      (ev_results 0 evs ++ [VNone], mkW C MClosed (len (concat (ev_chunks evs))) cf file) /\
    inflate file = Some (concat (ev_chunks evs)).
Proof. exact write_stream_decodes. Qed.
Print Assumptions C13_write.
