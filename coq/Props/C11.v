(* C11 -- concurrent users of one cache directory always get correct values.

   Model M5 (Model/FsModel.v, see Props/C05.v for its description).  A configuration is the
   shared file system plus any number of participants (processes/threads), each a session
   program; [grun evs c] performs the events [Run i] (participant i does its next file-system
   operation), [Kill i], [Torn i j] in the given order: every interleaving at operation
   granularity.  os.replace is atomic and an open-and-read is atomic (POSIX; the inode is pinned);
   create/truncate and write of func_code.py and .gitignore are separate steps, so torn reads
   of func_code.py by other participants are part of the model.
   Hypotheses: all participants run the same source version [cur]; their writer ids
   (thread id, pid) differ (injectivity of concurrency_safe_write's temporary name);
   unpickle (pickle v) = Some v; the initial directory satisfies [InvB cur] (e.g. is empty).

   This file contains only the property theorems; proofs are in Proofs/FsModel*.v. *)
From Coq Require Import ZArith List Bool.
Require Import JV.Base.PyPrelude JV.Model.FsModel JV.Proofs.FsModelBase JV.Proofs.FsModelThm
               JV.Proofs.FsModelProps JV.Proofs.FsModelWarm.
Import ListNotations.
Open Scope Z_scope.

(* [InvB cur] (every final output.pkl of entry k = pickle (f cur k), complete; every final
   metadata.json complete; tree well formed; func_code.py a prefix of the current source) is
   preserved by every step of every participant: unbounded participants, all schedules. *)
Theorem C11_invariant :
  forall pickle unpickle meta parse_meta code code_eq decodes gitbytes f cur (sps : list spec) evs s,
  NoDup (map spec_tid sps) -> Forall (same_version cur) sps -> InvB pickle meta code f cur s ->
  InvB pickle meta code f cur
    (fst (grun evs (s, map (fun sp => Some (sess pickle unpickle meta parse_meta code code_eq decodes gitbytes f sp)) sps))).
Proof. exact fresh_global. Qed.
Print Assumptions C11_invariant.

(* every cached call (plain or shelved) that returns a value returns f cur k -- in every
   participant, under every schedule, whatever the others do (calls with equal or different
   arguments, reduce_size, clear, invalidation by a callback, dying) *)
Theorem C11_values :
  forall pickle unpickle meta parse_meta code code_eq decodes gitbytes f cur (sps : list spec) evs s i sp outs,
  (forall v, unpickle (pickle v) = Some v) ->
  NoDup (map spec_tid sps) -> Forall (same_version cur) sps -> InvB pickle meta code f cur s ->
  nth_error sps i = Some sp ->
  nth_error (snd (grun evs (s, map (fun sp => Some (sess pickle unpickle meta parse_meta code code_eq decodes gitbytes f sp)) sps))) i
    = Some (Some (Ret outs)) ->
  (exists e, outs = [OExn e]) \/ Forall2 (call_ok f cur) (spec_acts sp) outs.
Proof. exact values_global. Qed.
Print Assumptions C11_values.

(* concurrent writers of one entry leave one complete result, never a mixture: at every moment
   <k>/output.pkl, if present, is exactly pickle (f cur k), and <k>/metadata.json the whole json *)
Theorem C11_single_winner :
  forall pickle unpickle meta parse_meta code code_eq decodes gitbytes f cur (sps : list spec) evs s k b,
  NoDup (map spec_tid sps) -> Forall (same_version cur) sps -> InvB pickle meta code f cur s ->
  let s' := fst (grun evs (s, map (fun sp => Some (sess pickle unpickle meta parse_meta code code_eq decodes gitbytes f sp)) sps)) in
  (lookup (POut k) s' = Some b -> b = pickle (f cur k)) /\ (lookup (PMeta k) s' = Some b -> b = meta).
Proof. exact single_winner_global. Qed.
Print Assumptions C11_single_winner.

(* Full statement "no cached call raises because of the concurrent activity", FALSE of the code
   (finding F14): a first call in a process racing with another process's Memory.clear():
   store_cached_func_code tests the function directory, the other process removes it, the open
   of func_code.py for writing raises FileNotFoundError, which nothing catches. *)
Theorem C11_no_raise_refuted :
  exists (s : fs) (evs : list event),
    InvB Toy.pickle Toy.meta Toy.code Toy.f 1 s /\
    snd (grun evs (s, [Some (Toy.session 1 5 None [ACall 1]); Some (Toy.session 1 6 None [AClear])]))
    = [Some (Ret [OExn FileNotFoundError]); Some (Ret [ODone])].
Proof.
  exists toy_s1, f14_sched. split.
  - exact (proj2 (recover_B Toy.pickle Toy.unpickle Toy.meta Toy.parse_meta Toy.code Toy.code_eq Toy.decodes
             Toy.gitbytes Toy.f 1 toy_unpickle_pickle (fun j => toy_decodes_prefix 1 j eq_refl) 1 None [1; 2] []
             (InvB_empty Toy.pickle Toy.meta Toy.code Toy.f 1))).
  - exact f14_witness.
Qed.
Print Assumptions C11_no_raise_refuted.

(* The same refutation at the other raising statement of a call (finding F14c): the caller finds no
   func_code.py (the clearer removed it), goes to _write_func_code > store_cached_func_code > mkdirp >
   os.makedirs, sees the module directory exist, the clearer removes it, mkdir(function directory) raises
   FileNotFoundError.  The rely condition of C11_no_raise_partial ("no participant clears") is what is violated. *)
Theorem C11_no_raise_refuted_makedirs :
  exists (s : fs) (evs : list event),
    InvB Toy.pickle Toy.meta Toy.code Toy.f 1 s /\
    snd (grun evs (s, [Some (Toy.session 1 5 None [AReduce []; ACall 1]); Some (Toy.session 1 6 None [AClear])]))
    = [Some (Ret [ODone; OExn FileNotFoundError]); Some (Ret [ODone])].
Proof.
  exists toy_s1, f14c_sched. split.
  - exact (proj2 (recover_B Toy.pickle Toy.unpickle Toy.meta Toy.parse_meta Toy.code Toy.code_eq Toy.decodes
             Toy.gitbytes Toy.f 1 toy_unpickle_pickle (fun j => toy_decodes_prefix 1 j eq_refl) 1 None [1; 2] []
             (InvB_empty Toy.pickle Toy.meta Toy.code Toy.f 1))).
  - exact f14c_witness.
Qed.
Print Assumptions C11_no_raise_refuted_makedirs.

(* What is true: when the cache is warm (the directories exist and func_code.py holds the current
   source) and no participant clears (Memory.clear / MemorizedFunc.clear) -- calls with or without
   a validation callback and reduce_size in any number and order -- no call raises and every call
   returns f cur k.  [Warm] is preserved along the way. *)
Theorem C11_no_raise_partial :
  forall pickle unpickle meta parse_meta code code_eq decodes gitbytes f cur (sps : list spec) evs s i sp outs,
  (forall v, unpickle (pickle v) = Some v) -> decodes (code cur) = true -> code_eq (code cur) cur = true ->
  NoDup (map spec_tid sps) -> Forall (same_version cur) sps -> Forall (fun sp => Forall calm (spec_acts sp)) sps ->
  InvB pickle meta code f cur s -> Warm code cur s ->
  nth_error sps i = Some sp ->
  nth_error (snd (grun evs (s, map (fun sp => Some (sess pickle unpickle meta parse_meta code code_eq decodes gitbytes f sp)) sps))) i
    = Some (Some (Ret outs)) ->
  Forall2 (calm_ok f cur) (spec_acts sp) outs.
Proof.
  intros pickle unpickle meta parse_meta code code_eq decodes gitbytes f cur sps evs s i sp outs Hup Hdec Heq.
  exact (warm_no_raise pickle unpickle meta parse_meta code code_eq decodes gitbytes f cur Hdec Heq Hup sps evs s i sp outs).
Qed.
Print Assumptions C11_no_raise_partial.

(* No reader ever observes a partially written final name -- stated against rename atomicity as the only
   operating-system hypothesis (it is how [Rename] is defined in Model/FsModel.v: the final name
   switches from its old content to the complete new content in one step).  For ANY mix of source
   versions, any number of participants, any schedule, kills and torn writes included: opening and
   reading <k>/output.pkl yields ENOENT or a whole pickle; <k>/metadata.json yields ENOENT or the whole json. *)
Theorem C11_readers_see_complete :
  forall pickle unpickle meta parse_meta code code_eq decodes gitbytes f (sps : list spec) evs s k,
  NoDup (map spec_tid sps) -> InvA pickle meta s ->
  let s' := fst (grun evs (s, map (fun sp => Some (sess pickle unpickle meta parse_meta code code_eq decodes gitbytes f sp)) sps)) in
  match fst (exec (ReadAll (POut k)) s') with
  | RBytes b => exists v, b = pickle v | RErr e => e = ENOENT | _ => False end /\
  match fst (exec (ReadAll (PMeta k)) s') with
  | RBytes b => b = meta | RErr e => e = ENOENT | _ => False end.
Proof. exact readers_complete. Qed.
Print Assumptions C11_readers_see_complete.

(* The temporary name of concurrency_safe_write, "<file>.thread-<id(current_thread())>-pid-<getpid()>"
   (pattern regenerated from the source: Gen/T_store_ops.v, gen_tmpname), is injective in (pid, thread id):
   writers in two processes AND two threads of one process get different temporaries, which is the
   NoDup hypothesis of every theorem of this file. *)
Theorem C11_writer_ids_distinct : forall (l : list (Z * Z)),
  (forall pt, In pt l -> 0 <= snd pt < 18446744073709551616) -> NoDup l ->
  NoDup (map (fun pt => writer_id (fst pt) (snd pt)) l).
Proof. exact NoDup_writer_ids. Qed.
Print Assumptions C11_writer_ids_distinct.

Example C11_hypotheses_satisfiable :
  InvB Toy.pickle Toy.meta Toy.code Toy.f 1 toy_s1 /\ Warm Toy.code 1 toy_s1 /\
  Toy.decodes (Toy.code 1) = true /\ Toy.code_eq (Toy.code 1) 1 = true.
Proof.
  split; [|vm_compute; repeat split; reflexivity].
  exact (proj2 (recover_B Toy.pickle Toy.unpickle Toy.meta Toy.parse_meta Toy.code Toy.code_eq Toy.decodes
           Toy.gitbytes Toy.f 1 toy_unpickle_pickle (fun j => toy_decodes_prefix 1 j eq_refl) 1 None [1; 2] []
           (InvB_empty Toy.pickle Toy.meta Toy.code Toy.f 1))).
Qed.
Print Assumptions C11_hypotheses_satisfiable.
