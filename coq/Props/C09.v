(* C09 -- Parallel consumes its input lazily, boundedly and from one thread at a time (model M1). *)
From Coq Require Import List Arith.
Require Import JV.Model.ParallelCore JV.Proofs.ParallelInv1 JV.Proofs.ParallelMisc.
Import ListNotations.

(* once the abort flag is set (task failure, input failure, timeout, generator closed) no event other
   than the next call takes an item, fills the look-ahead queue or submits a batch *)
Theorem C09_stop_after_abort : forall g s e,
  aborting s = true -> (forall cf n f, e <> ECall cf n f) ->
  input_fields (fst (step g s e)) = input_fields s /\ aborting (fst (step g s e)) = true.
Proof. exact stop_after_abort. Qed.

(* pre_dispatch='all': everything has been taken when _start returns *)
Theorem C09_all_up_front : forall s, reach s -> pre (c s) = PreAll ->
  (phase s = Retrieving \/ (exists r, phase s = Draining r) \/ phase s = Finished) ->
  aborting s = false -> taken s = N s /\ ready s = [].
Proof. exact pre_all_takes_everything. Qed.

(* items are only ever taken in input order and each at most once (no two threads interleave inside the
   slicing: it happens inside one atomic event of the model, which the lock probe ties to the code) *)
Theorem C09_taken_is_a_prefix : forall s, reach s -> ifail s = None ->
  concat (submitted s) ++ concat (ready s) = seq 0 (taken s) /\ taken s <= N s.
Proof. exact partition_invariant. Qed.
