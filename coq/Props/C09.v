(* C09 -- Parallel consumes its input lazily, boundedly and from one thread at a time (model M1). *)
From Coq Require Import List Arith.
Require Import JV.Model.ParallelCore JV.Proofs.ParallelInv1 JV.Proofs.ParallelTrk JV.Proofs.ParallelFrame4
               JV.Proofs.ParallelBound JV.Proofs.ParallelMisc.
Require Import JV.Model.ParallelSync JV.Proofs.SyncFrame JV.Proofs.SyncInv JV.Proofs.SyncThm.
Import ListNotations.

(* once the abort flag is set (task failure, input failure, timeout, generator closed) no event other
   than the next call takes an item, fills the look-ahead queue or submits a batch *)
Theorem C09_stop_after_abort : forall g s e,
  aborting s = true -> (forall cf n f, e <> ECall cf n f) ->
  input_fields (fst (step g s e)) = input_fields s /\ aborting (fst (step g s e)) = true.
Proof. exact stop_after_abort. Qed.
Print Assumptions C09_stop_after_abort.

(* pre_dispatch='all': everything has been taken when _start returns *)
Theorem C09_all_up_front : forall s, reach s -> pre (c s) = PreAll ->
  (phase s = Retrieving \/ (exists r, phase s = Draining r) \/ phase s = Finished) ->
  aborting s = false -> taken s = N s /\ ready s = [].
Proof. exact pre_all_takes_everything. Qed.
Print Assumptions C09_all_up_front.

(* items are only ever taken in input order and each at most once (no two threads interleave inside the
   slicing: it happens inside one atomic event of the model, which the lock probe ties to the code) *)
Theorem C09_taken_is_a_prefix : forall s, reach s -> ifail s = None ->
  concat (submitted s) ++ concat (ready s) = seq 0 (taken s) /\ taken s <= N s.
Proof. exact partition_invariant. Qed.
Print Assumptions C09_taken_is_a_prefix.

(* the bound: with pre_dispatch = p items, n_jobs workers and batch sizes (the 'auto' oracle included)
   never above B, in every state reachable by any schedule in which no completion callback ran its dispatch
   section while the caller was still inside _start (ghost flag [noisy] = false):
     taken - completed <= p*B + n_jobs*B  -- independent of the input length N --,
     at most p batches are open, hence at most p batches of this call are in flight *)
Theorem C09_bound : forall B s p, reachb (okB B) s -> noisy s = false -> ifail s = None -> pre (c s) = PreN p ->
  phase s <> Idle ->
  taken s - n_comp s <= p * B + n_jobs (c s) * B /\
  length (opens s) <= p /\
  length (filter (is_cur s) (inflight s)) <= p.
Proof. exact laziness_bound. Qed.
Print Assumptions C09_bound.

(* known finding F26: without that restriction the bound fails (the caller thread, still in _start, drains the
   look-ahead queue refilled by a callback): 14 > 1*2 + 4*2 with 4 open batches for pre_dispatch = 1 *)
Theorem C09_bound_refuted :
  let s := fst (run_events true init f26_events) in
  noisy s = true /\ taken s - n_comp s = 14 /\ 1 * 2 + 4 * 2 = 10 /\ length (opens s) = 4 /\ pre (c s) = PreN 1.
Proof. exact f26_witness. Qed.
Print Assumptions C09_bound_refuted.

(* the same for backends that do not retrieve results in their completion callback (Model/ParallelSync.v) *)
Theorem C09_sync_stop_after_abort : forall s e, aborting (base s) = true -> (forall cf n f, e <> SCall cf n f) ->
  input_fields (base (fst (sstep s e))) = input_fields (base s) /\ aborting (base (fst (sstep s e))) = true.
Proof. exact sync_stop_after_abort. Qed.
Print Assumptions C09_sync_stop_after_abort.

Theorem C09_sync_taken_is_a_prefix : forall s, sreach s -> ifail (base s) = None ->
  concat (submitted (base s)) ++ concat (ready (base s)) = seq 0 (taken (base s)) /\ taken (base s) <= N (base s).
Proof. exact sync_partition. Qed.
Print Assumptions C09_sync_taken_is_a_prefix.

(* ---- the sequential path (n_jobs resolves to 1): Model/ParallelSeq.v, proofs in Proofs/SeqThm.v *)
Require Import JV.Model.ParallelSeq JV.Proofs.SeqThm.

(* the input is consumed at most one batch ahead of what was handed to the consumer, never beyond its end *)
Theorem C09_seq_path_lazy_consumption : forall s, qreach s ->
  qtaken s <= length (qdelivered s) + qbs (qc s) /\ qtaken s <= qN (qc s) /\ length (qdelivered s) <= qtaken s.
Proof. exact seq_lazy_consumption. Qed.
Print Assumptions C09_seq_path_lazy_consumption.

(* once the generator has finished (end, failure, close) nothing is consumed any more *)
Theorem C09_seq_path_finished_generator_is_inert : forall s, qalive s = false ->
  fst (qstep s QNext) = s /\ fst (qstep s QClose) = s.
Proof. exact seq_finished_generator_is_inert. Qed.
Print Assumptions C09_seq_path_finished_generator_is_inert.

(* ---- string values of pre_dispatch: joblib/_utils.py eval_expr over the REGENERATED operator table (Gen/T_operators.v),
   then int() -- Model/PreDispatch.v, proofs in Proofs/PreDispatchThm.v *)
Require Import JV.Model.PreDispatch JV.Gen.T_operators JV.Proofs.PreDispatchThm.
From Coq Require Import QArith.

(* 'n_jobs', '2*n_jobs', '1.5*n_jobs', '3*n_jobs/2' take n, 2n, floor(3n/2), floor(3n/2) items up front, for every n_jobs *)
Theorem C09_pre_dispatch_documented_forms : forall n,
  amount (nj n) = Some (Z.of_nat n) /\
  amount (EBin OMul (EConst 2) (nj n)) = Some (2 * Z.of_nat n)%Z /\
  amount (EBin OMul (EConst (3 # 2)) (nj n)) = Some (3 * Z.of_nat n / 2)%Z /\
  amount (EBin ODiv (EBin OMul (EConst 3) (nj n)) (EConst 2)) = Some (3 * Z.of_nat n / 2)%Z.
Proof. exact pre_dispatch_documented_forms. Qed.
Print Assumptions C09_pre_dispatch_documented_forms.

(* '/' is a true division: '1/2*n_jobs' is floor(n/2), not 0 *)
Theorem C09_pre_dispatch_division_is_exact : forall n,
  amount (EBin OMul (EBin ODiv (EConst 1) (EConst 2)) (nj n)) = Some (Z.of_nat n / 2)%Z.
Proof. exact pre_dispatch_division_is_exact. Qed.
Print Assumptions C09_pre_dispatch_division_is_exact.

(* the amount is the value of the expression truncated: never more than the expression says, less than one below it *)
Theorem C09_pre_dispatch_truncates : forall e q, eval src_operators src_neg e = Some q -> (0 <= q)%Q ->
  exists a, amount e = Some a /\ (inject_Z a <= q)%Q /\ (q < inject_Z (a + 1))%Q.
Proof. exact pre_dispatch_truncates. Qed.
Print Assumptions C09_pre_dispatch_truncates.
