(* C12 -- a cached function never returns a value computed by different source code; a
   still-referenced older definition keeps returning its own values; unchanged code keeps its
   cache across sessions.

   Model M4 (Model/MemoryCore.v).  Events Define k (write text [code k] into file [path_of k] and
   execute it: function object k), Wrap k (a fresh MemorizedFunc for object k, with its own lazily
   cached func_code_info), Call k c, NewProcess -- plus every other event of the model -- over
   {files; disk (func_code.py); entries; table (_FUNCTION_HASHES); live; wraps; refs}.
   _check_previous_func_code is modelled branch by branch, including the in-memory fast path and
   the fact that get_func_code reads the source FILE when the wrapper first needs it.
   Values: f C (code C k) b -- what the text of object k computes.

   The full statement
       C12_sound : forall h, Forall (call_sound C) (run C init h)
   is FALSE of the unchanged tree (finding F10, and a second history found while modelling
   func_code_info); proved instead:
     C12_sound_refuted, C12_sound_refuted_same_file   the two witnesses
     C12_sound_partial    sound along every ADMISSIBLE history (a syntactic condition, see below)
     C12_unchanged_kept   unchanged code keeps its cache across sessions
   This file contains only the property theorems; proofs are in Proofs/Memory*.v. *)
From Coq Require Import List Bool Arith ZArith.
Require Import JV.Base.PyPrelude JV.Model.MemoryCore JV.Model.MemoryTab.
Require Import JV.Proofs.MemoryCore JV.Proofs.MemoryKept JV.Proofs.MemoryTheorems.
Require Import JV.Model.MemoryCodeCheck JV.Proofs.MemoryCodeCheck.
Local Close Scope Z_scope.   (* numerals are nat unless marked %Z *)
Import ListNotations.

(* F10: versions 1 and 2 of a same-named function live in their own files, both objects stay
   referenced.  Define 1; Define 2; Call 1 0; Call 2 0; Call 1 0: the last call returns the value
   computed by version 2 (object 1 is still in _FUNCTION_HASHES, the fast path skips the comparison
   with func_code.py, and the entry written by version 2 is served). *)
Theorem C12_sound_refuted :
  forallb c12_event f10_history = true /\
  outcomes f10_cfg f10_history = [ODone; ODone; ODone; ODone; OMiss (1, 0); OMiss (2, 0); OHit (2, 0)] /\
  last f10_history NewProcess = Call 1 (arg 0) true /\
  f f10_cfg (code f10_cfg 1) (0, 0) = (1, 0) /\
  admissible f10_cfg f10_history = false.
Proof. repeat split; vm_compute; reflexivity. Qed.
Print Assumptions C12_sound_refuted.

(* second witness: ONE source file.  The file is rewritten with version 2 (and re-executed) before
   the wrapper of the still-referenced version 1 has read its source: get_func_code(g1) then
   returns the text of version 2, func_code.py records version 2 although the entry was computed
   by version 1, and the first call of version 2 is served version 1's value. *)
Theorem C12_sound_refuted_same_file :
  forallb c12_event samefile_history = true /\
  outcomes samefile_cfg samefile_history = [ODone; ODone; ODone; ODone; OMiss (1, 0); OHit (1, 0)] /\
  last samefile_history NewProcess = Call 2 (arg 0) true /\
  f samefile_cfg (code samefile_cfg 2) (0, 0) = (2, 0) /\
  admissible samefile_cfg samefile_history = false.
Proof. repeat split; vm_compute; reflexivity. Qed.
Print Assumptions C12_sound_refuted_same_file.

(* Sound along every admissible history.  [admissible] (Model/MemoryCore.v) is computed from the
   history alone: within one process a function object is used (called, checked, shelved, cleared
   through its wrapper) only while
     - its source file has not been overwritten by a Define of different text, and
     - no object of different text has been used since this object was last used
       (in particular: "a version is never called again after a different version of the same
        name has been called"); first use is always allowed.  This clause binds only callables
       that can enter _FUNCTION_HASHES ([named C k = true]): for lambdas, partials and other
       callables without a __name__ the first clause alone suffices (C12_unnamed_example).
   Any interleaving of definitions, wrappers, fresh processes, clears and evictions is allowed. *)
Theorem C12_sound_partial :
  forall (call key_input digest binding kbinding value src : Type)
         (C : cfg call key_input digest binding kbinding value src),
  (forall a b, digest_eqb C a b = true <-> a = b) -> (forall a b, src_eqb C a b = true <-> a = b) ->
  key_sound C -> f_respects C ->
  forall h, admissible C h = true -> Forall (call_sound C) (run C init h).
Proof. intros ? ? ? ? ? ? ? C Hd Hs KS FR h A. exact (sound_admissible C Hd Hs KS FR h A). Qed.
Print Assumptions C12_sound_partial.

(* Unchanged code keeps its cache across sessions: after a completed call of object k (reached by
   an admissible history), a fresh process and then any quiet continuation -- re-imports of the
   SAME text (Define j with code j = code k), wrappers, calls, checks, further fresh processes; no
   clear, eviction or invalidation -- an equivalent call is a Hit. *)
Theorem C12_unchanged_kept :
  forall (call key_input digest binding kbinding value src : Type)
         (C : cfg call key_input digest binding kbinding value src),
  (forall a b, digest_eqb C a b = true <-> a = b) -> (forall a b, src_eqb C a b = true <-> a = b) ->
  key_complete C ->
  forall h1 k c vld h3 k' c' b b' ki' v,
  admissible C (h1 ++ [Call k c vld]) = true ->
  bind_spec C c = Some b -> bind_spec C c' = Some b' -> restrict C b = restrict C b' ->
  canonicalise C c' = Ok ki' ->
  forallb (quiet C (code C k)) h3 = true ->
  let st1 := final C init h1 in
  (fst (step C st1 (Call k c vld)) = OHit v \/ fst (step C st1 (Call k c vld)) = OMiss v) ->
  let st3 := final C (snd (step C st1 (Call k c vld))) (NewProcess :: h3) in
  fst (step C st3 (Call k' c' true)) = OSkip \/ exists v', fst (step C st3 (Call k' c' true)) = OHit v'.
Proof. intros ? ? ? ? ? ? ? C Hd Hs. apply unchanged_kept; assumption. Qed.
Print Assumptions C12_unchanged_kept.

(* non-vacuity: an admissible history with three versions, a code change detected across a fresh
   process, an older version re-imported, and the cache of unchanged code surviving a session *)
Example C12_admissible_example :
  let h := [Define 1; Wrap 1; Call 1 (arg 0) true; Define 2; Wrap 2; Call 2 (arg 0) true; Call 2 (arg 0) true;
            NewProcess; Define 2; Wrap 2; Call 2 (arg 0) true; Define 1; Wrap 1; Call 1 (arg 0) true] in
  admissible f10_cfg h = true /\
  outcomes f10_cfg h = [ODone; ODone; OMiss (1, 0); ODone; ODone; OMiss (2, 0); OHit (2, 0);
                        ODone; ODone; ODone; OHit (2, 0); ODone; ODone; OMiss (1, 0)].
Proof. split; vm_compute; reflexivity. Qed.
Print Assumptions C12_admissible_example.

(* lambdas / partials never enter _FUNCTION_HASHES: the F10 history itself is admissible for them and every
   call returns the value of its own text *)
Example C12_unnamed_example :
  let C := tab_cfg [0; 1; 2] [0; 1; 2] [false; false; false] in
  admissible C f10_history = true /\
  outcomes C f10_history = [ODone; ODone; ODone; ODone; OMiss (1, 0); OMiss (2, 0); OMiss (1, 0)].
Proof. split; vm_compute; reflexivity. Qed.
Print Assumptions C12_unnamed_example.

(* ---------------------------------------------------------------------------------------------------------
   The slow path of _check_previous_func_code as a decision procedure (Model/MemoryCodeCheck.v) over
   (func_code.py as stored: header + text, or absent; current text, first line, source file known / existing /
   doctest, lambda, "old text still at the old line of the source file").  [decide] returns the answer and the
   JobLibCollisionWarnings; it is compared with the real method on generated stores (harness stage
   "codecheck" of ./check C12). *)

(* "same code" (return True) is answered exactly when the stored text EQUALS the current text -- whatever the
   headers, first lines, file names or lambda-ness are.  (A whitespace-insensitive comparison falsifies this.) *)
Theorem C12_check_same_iff_equal :
  forall (src : Type) (src_eqb : src -> src -> bool), (forall a b, src_eqb a b = true <-> a = b) ->
  forall (stored : option (stored_file src)) (c : current src),
  fst (decide src_eqb stored c) = Same <-> exists f, stored = Some f /\ body f = cur_code c.
Proof. intros src eqb H. exact (decide_same_iff eqb H). Qed.
Print Assumptions C12_check_same_iff_equal.

(* the function's cache directory is wiped exactly when a func_code.py exists whose text differs; a missing
   func_code.py is written without wiping; warnings are only ever issued together with a wipe *)
Theorem C12_check_clears_iff_differs :
  forall (src : Type) (src_eqb : src -> src -> bool), (forall a b, src_eqb a b = true <-> a = b) ->
  forall (stored : option (stored_file src)) (c : current src),
  (snd (after src_eqb stored c) = false <-> exists f, stored = Some f /\ body f <> cur_code c) /\
  (fst (decide src_eqb stored c) = FirstWrite <-> stored = None) /\
  (snd (decide src_eqb stored c) <> [] -> snd (after src_eqb stored c) = false).
Proof.
  intros src eqb H stored c. split; [|split].
  - rewrite (after_keeps_entries_iff eqb). exact (decide_changed_iff eqb H stored c).
  - exact (decide_first_write_iff eqb stored c).
  - intros W. apply (after_keeps_entries_iff eqb). exact (decide_warnings_only_when_changed eqb stored c W).
Qed.
Print Assumptions C12_check_clears_iff_differs.

(* after any run func_code.py holds the current text, read back exactly by extract_first_line: the next run
   answers "same" *)
Theorem C12_check_idempotent :
  forall (src : Type) (src_eqb : src -> src -> bool), (forall a b, src_eqb a b = true <-> a = b) ->
  forall (stored : option (stored_file src)) (c : current src),
  fst (decide src_eqb (fst (after src_eqb stored c)) c) = Same /\
  extract_first_line (written c) = (cur_code c, cur_line c).
Proof. intros src eqb H stored c. split; [exact (after_then_same eqb H stored c) | reflexivity]. Qed.
Print Assumptions C12_check_idempotent.

(* M4's check_code (Model/MemoryCore.v) is this decision procedure on its slow path, and ignores func_code.py
   altogether on the in-memory fast path -- the root of F10 *)
Theorem C12_check_code_refines :
  forall (call key_input digest binding kbinding value src : Type)
         (C : cfg call key_input digest binding kbinding value src)
         (st : state call digest value src) k,
  (mem_nat k (table st) = true -> check_code C st k = Some (true, st)) /\
  (forall s st1, mem_nat k (table st) = false -> source_of C st k = Some (s, st1) ->
     check_code C st k =
       match fst (decide (src_eqb C) (stored_of (disk st1)) (cur_of s)) with
       | Same => Some (true, st1)
       | FirstWrite => Some (false, write_func_code C st1 k s (entries st1))
       | Changed => Some (false, write_func_code C st1 k s [])
       end).
Proof.
  intros ? ? ? ? ? ? ? C st k. split.
  - exact (check_code_fast_ignores_disk C st k).
  - intros s st1. exact (check_code_slow_is_decide C st k s st1).
Qed.
Print Assumptions C12_check_code_refines.

(* non-vacuity of the decision procedure: all three answers and both warnings occur *)
Example C12_decide_examples :
  let f n s := Some {| hdr := Some (Some n); body := s |} in
  let c s l lam := {| cur_code := s; cur_line := l; has_source_file := true; file_exists := true;
                      is_doctest := false; is_lambda := lam; disk_has_old := true |} in
  decide Nat.eqb None (c 7 3%Z false) = (FirstWrite, []) /\
  decide Nat.eqb (f 3%Z 7) (c 7 9%Z false) = (Same, []) /\
  decide Nat.eqb (f 3%Z 6) (c 7 3%Z false) = (Changed, []) /\
  decide Nat.eqb (f 3%Z 6) (c 7 9%Z true) = (Changed, [CannotDetect; PossibleCollision]) /\
  decide Nat.eqb (Some {| hdr := Some None; body := 6 |}) (c 7 (-1)%Z false) = (Changed, [CannotDetect]).
Proof. repeat split. Qed.
Print Assumptions C12_decide_examples.

(* ---------------------------------------------------------------------------------------------------------
   Several cache locations (Model/MemoryLoc.v): one M4 state per location driven in lock step; the entry of a
   function in _FUNCTION_HASHES carries the location of the store it was validated against (fix F45), so a step
   that (re)writes the entry at location L makes every other location forget the function.  The recorded location is
   the path STRING: several spellings of one directory (aliases) share the store -- one state -- but are separate
   tags; [sibs i] lists the model objects that are the same Python function reached through another spelling or
   location, and they are forgotten together.  Both theorems hold for every [sibs]: using the string as the tag is
   sound under aliasing, because a function reached through another spelling is simply not vouched for (slow path,
   comparison with the shared func_code.py) and Memory.clear() empties the whole table. *)
Require Import JV.Model.MemoryLoc JV.Proofs.MemoryLoc.

(* along EVERY multi-location history, every call through the wrapper of a location where the history is
   admissible returns what the called version's own source computes *)
Theorem C12_location_sound :
  forall (call key_input digest binding kbinding value src : Type)
         (C : cfg call key_input digest binding kbinding value src),
  (forall a b, digest_eqb C a b = true <-> a = b) -> (forall a b, src_eqb C a b = true <-> a = b) ->
  key_sound C -> f_respects C ->
  forall (sibs : nat -> list nat) n h, msound C sibs (minit n) h.
Proof. intros ? ? ? ? ? ? ? C Hd Hs KS FR sibs n h. apply mrun_sound; auto. apply minit_inv. Qed.
Print Assumptions C12_location_sound.

(* a fast-path answer at location L: func_code.py AT L holds the current source of the function *)
Theorem C12_fast_path_per_location :
  forall (call key_input digest binding kbinding value src : Type)
         (C : cfg call key_input digest binding kbinding value src),
  (forall a b, digest_eqb C a b = true <-> a = b) -> (forall a b, src_eqb C a b = true <-> a = b) ->
  forall (sibs : nat -> list nat) h n L st m k,
  nth_error (snd (mrun C sibs (minit n) h)) L = Some (st, Some m) ->
  usable C m k -> mem_nat k (table st) = true ->
  check_code C st k = Some (true, st) /\ disk st = Some (code C k).
Proof. intros ? ? ? ? ? ? ? C Hd Hs sibs. exact (fast_path_location C sibs Hd Hs). Qed.
Print Assumptions C12_fast_path_per_location.

(* the history of fixed finding F45: location 1 holds f(0) computed by the OLD text (a previous session); in the
   new session the edited function is first called at the empty location 0, then at location 1: the model (with
   the location in the table entry) recomputes; had location 1 not forgotten nothing, a stale value would be served *)
Example C12_location_example :
  let C := tab_cfg [0; 1; 2] [0; 0; 0] [] in
  let h := [Everywhere (Define 1); At 1 (Wrap 1); At 1 (Call 1 (arg 0) true); Everywhere NewProcess;
            Everywhere (Define 2); At 0 (Wrap 2); At 1 (Wrap 2); At 0 (Call 2 (arg 0) true);
            At 1 (Call 2 (arg 0) true); At 0 (Call 2 (arg 0) true); At 1 (Call 2 (arg 0) true)] in
  madmissible C (fun i => [i]) 2 h = true /\
  moutcomes C (fun i => [i]) 2 h = [ODone; ODone; OMiss (1, 0); ODone; ODone; ODone; ODone; OMiss (2, 0); OMiss (2, 0);
                     OHit (2, 0); OHit (2, 0)].
Proof. split; vm_compute; reflexivity. Qed.
Print Assumptions C12_location_example.
