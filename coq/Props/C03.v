(* C03 -- dump/load round-trips under every compressor/target; the compression format is recognised
   from the file CONTENT, so a file loads identically whatever it is named.            (PARTIAL)

   What is proved is joblib's own logic (Model/Persist.v, read off numpy_pickle.dump / load,
   numpy_pickle_utils._detect_compressor / _write_fileobject / _validate_fileobject_and_memmap):
   argument resolution, writer selection, content sniffing, reader selection, the stream glue.
   The registry (names, magic prefixes, extensions, availability), the compat marker and CPython's
   protocol-0/1 opcode table are REGENERATED from the live code into Gen/C03_Constants.v on every
   run, and every table-dependent step below is re-checked against them.

   NOT proved (explicit hypotheses of C03_roundtrip_stream, sampled by the differential harness):
   that the codecs round-trip and emit their magic; that CPython's pickle round-trips every object
   (the payload is an opaque byte string here) and starts a stream as [pickle_startb] says.

   Only property theorems here; proofs are in Proofs/Persist.v. *)
From Coq Require Import ZArith List Bool Sorting.Permutation.
Require Import JV.Base.PyPrelude JV.Gen.C03_Constants JV.Model.Persist JV.Proofs.Persist.
Import ListNotations.
Open Scope Z_scope.

(* Detection is total and unambiguous.
   (1) no registered prefix is a prefix of another one nor of the compat marker "ZF" (nor vice versa);
   (2) therefore the verdict is the same for EVERY ordering of the table;
   (3) for each codec, magic ++ tail is detected as that codec for ALL tails (and "ZF" ++ tail as compat)
       as soon as the sniffed window has the live _get_prefixes_max_len() bytes;
   (4) a pickle of protocol 0..5 is never mistaken for a compressed file.  Bound of the finite part:
       the sweep covers all 256 x 256 values of the first two bytes; [pickle_startb] says which of them
       a CPython pickler can emit (0x80 + protocol 2..5; or a protocol<=1 opcode, followed by another
       such opcode when it takes no argument -- this is what separates `]q..` from the lzma magic `]\x00`). *)
Theorem C03_detect_total_unambiguous :
  ((forall e e', In e registry -> In e' registry -> e <> e' -> comparable (e_prefix e) (e_prefix e') = false) /\
   (forall e, In e registry -> comparable zfile_prefix (e_prefix e) = false) /\
   names_distinct (map e_name registry) = true) /\
  (forall tbl' first_bytes, Permutation registry tbl' -> detect_in tbl' first_bytes = detect_in registry first_bytes) /\
  (forall e tail got, In e registry -> (max_prefix_len <= got)%nat ->
     detect got (e_prefix e ++ tail) = KCodec (e_name e)) /\
  (forall tail got, (max_prefix_len <= got)%nat -> detect got (zfile_prefix ++ tail) = KCompat) /\
  (forall payload got, bytes_ok payload -> pickle_startb payload = true -> detect got payload = KPlain) /\
  max_prefix_len = live_max_prefix_len.
Proof. exact detect_total_unambiguous. Qed.
Print Assumptions C03_detect_total_unambiguous.

(* Round trip of the stream layer: for EVERY compress argument and target (kind and file NAME) that
   `dump` accepts, every payload that starts like a pickle, every name the file is loaded under, every size
   of the sniffed window >= the maximal prefix length, and every position of the target (bytes `pre`
   already in the file object) when it is peekable (open(..., "rb")) -- a non-peekable object (BytesIO) is
   rewound to 0 by _detect_compressor, so for it the statement is about position 0: what `load` hands to
   the unpickler is the payload. *)
Theorem C03_roundtrip_stream :
  forall (encode : list Z -> level -> bytes -> bytes) (decode : list Z -> bytes -> result bytes),
  (* hypotheses on the external codecs *)
  (forall c l x, codec_available c = true -> decode c (encode c l x) = Ok x) ->
  (forall c l x e, lookup c = Some e -> e_avail e = true -> starts_with (encode c l x) (e_prefix e) = true) ->
  forall c t w payload out load_name peekable got pre,
  resolve c t = Ok w -> dump_stream encode w payload = Ok out ->
  bytes_ok payload -> pickle_startb payload = true -> (max_prefix_len <= got)%nat ->
  (peekable = true \/ pre = []) ->
  load_stream decode load_name peekable got (pre ++ out) (length pre) = Ok payload.
Proof.
  intros encode decode H1 H2 c t w payload out load_name peekable got pre _ Hd Hok Hs Hg Hp.
  exact (roundtrip_stream encode decode H1 H2 w payload out load_name peekable got pre Hd Hok Hs Hg Hp).
Qed.
Print Assumptions C03_roundtrip_stream.

(* dump itself raises only where the code raises: resolve's ValueErrors, or a selected compressor whose
   backing module is missing (lz4 here) *)
Theorem C03_dump_total : forall (encode : list Z -> level -> bytes -> bytes) c t w payload,
  resolve c t = Ok w -> (forall codec l, effective w = Some (codec, l) -> codec_available codec = true) ->
  exists out, dump_stream encode w payload = Ok out.
Proof. intros encode c t w payload _ H. exact (dump_stream_total encode w payload H). Qed.
Print Assumptions C03_dump_total.

(* the hypotheses of C03_roundtrip_stream are satisfiable (toy codec = magic ++ payload), and a concrete
   instance: method named explicitly, misleading target name, loaded under another misleading name from
   a peekable file object at offset 3 *)
Example C03_hypotheses_satisfiable :
  (forall c l x, codec_available c = true -> toy_decode c (toy_encode c l x) = Ok x) /\
  (forall c l x e, lookup c = Some e -> e_avail e = true -> starts_with (toy_encode c l x) (e_prefix e) = true) /\
  let payload := [128; 4; 75; 7; 46] in
  resolve (CName [103; 122; 105; 112]) (TPath [109; 46; 120; 122]) = Ok (WComp (Some [103; 122; 105; 112]) LNone) /\
  dump_stream toy_encode (WComp (Some [103; 122; 105; 112]) LNone) payload = Ok ([31; 139] ++ payload) /\
  load_stream toy_decode [119; 46; 98; 122; 50] true 5 ([1; 2; 3] ++ [31; 139] ++ payload) 3 = Ok payload.
Proof. exact (conj toy_roundtrip (conj toy_magic toy_instance)). Qed.
Print Assumptions C03_hypotheses_satisfiable.

(* `resolve` agrees with the documented table of joblib.dump *)
Theorem C03_resolve_spec :
  resolve CTrue TFileObj = Ok (WComp (Some zlib_name) LNone) /\
  (forall t, resolve CNone t = resolve CTrue t) /\
  (forall n, 1 <= n <= 9 -> resolve (CInt n) TFileObj = Ok (WComp (Some zlib_name) (LInt n))) /\
  resolve (CInt 0) TFileObj = Ok WPlain /\
  (forall n t, n < 0 \/ 9 < n -> resolve (CInt n) t = Raise ValueError) /\
  (forall m n t, n < 0 \/ 9 < n -> resolve (CTuple2 m (LInt n)) t = Raise ValueError) /\
  (forall t, resolve CTupleBad t = Raise ValueError) /\
  (forall c, resolve c TInvalid = Raise ValueError) /\
  (forall m l t, in_registry m = false ->
     resolve (CTuple2 m l) t = Raise ValueError /\ resolve (CName m) t = Raise ValueError) /\
  (forall l t, lz4_installed = false ->
     resolve (CTuple2 lz4_name l) t = Raise ValueError /\ resolve (CName lz4_name) t = Raise ValueError) /\
  (forall s t, t <> TInvalid -> lz4_blocked s = false -> in_registry s = true ->
     resolve (CName s) t = Ok (WComp (Some s) LNone)) /\
  (forall m l t, t <> TInvalid -> lz4_blocked m = false -> level_valid l = true -> in_registry m = true ->
     resolve (CTuple2 m l) t = if level_is_zero l then Ok WPlain else Ok (WComp (Some m) l)) /\
  (forall fname e c, In e registry -> ends_with fname (e_ext e) = true -> (c = CTrue \/ c = CNone \/ c = CInt 0) ->
     resolve c (TPath fname) = Ok (WComp (Some (e_name e)) LNone)) /\
  (forall fname e n, In e registry -> ends_with fname (e_ext e) = true -> 1 <= n <= 9 ->
     resolve (CInt n) (TPath fname) = Ok (WComp (Some (e_name e)) (LInt n))) /\
  (forall fname, (forall e, In e registry -> ends_with fname (e_ext e) = false) ->
     resolve (CInt 0) (TPath fname) = Ok WPlain /\
     resolve CTrue (TPath fname) = Ok (WComp None LNone) /\
     (forall n, 1 <= n <= 9 -> resolve (CInt n) (TPath fname) = Ok (WComp None (LInt n))) /\
     write_codec None = zlib_name) /\
  (forall c t w, resolve c t = Ok w ->
     match effective w with
     | None => True
     | Some (codec, l) => in_registry codec = true /\ (l = LNone \/ exists n, l = LInt n /\ 1 <= n <= 9)
     end).
Proof. exact resolve_spec. Qed.
Print Assumptions C03_resolve_spec.

(* load(): the dispatch on (path | raw file | BytesIO | other object) x mmap_mode x ensure_native_byte_order x
   detected compressor is TOTAL and as documented: the only error is "native byte order demanded together with
   an mmap_mode"; memory mapping happens exactly for a path + uncompressed file + mmap_mode, and then the byte
   order is never coerced (the assert in NumpyArrayWrapper.read cannot fire); an mmap_mode that cannot be
   honoured gives exactly the documented warning (compressed file / BytesIO / not a raw file) and a copy --
   except for an open raw file object, which is silently copied (the validated mode is dropped by load()). *)
Theorem C03_load_dispatch : forall s mmap na k, plain_or_available k ->
  let native := match na with NAuto => negb mmap | NTrue => true | NFalse => false end in
  (load_decide s mmap na k = Raise ValueError <-> (na = NTrue /\ mmap = true)) /\
  ((na = NTrue /\ mmap = true) \/ exists p, load_decide s mmap na k = Ok p /\
     lp_native p = native /\
     (lp_mmap p = true <-> s = SPath /\ k = KPlain /\ mmap = true) /\
     (lp_mmap p = true -> lp_native p = false) /\
     (lp_warn p = WCompressed <-> mmap = true /\ k <> KPlain) /\
     (lp_warn p = WBytesIO <-> mmap = true /\ k = KPlain /\ s = SBytesIO) /\
     (lp_warn p = WNotRaw <-> mmap = true /\ k = KPlain /\ s = SOtherObj) /\
     (s = SRawFile -> k = KPlain -> lp_warn p = WNone /\ lp_mmap p = false)).
Proof. exact load_dispatch. Qed.
Print Assumptions C03_load_dispatch.

(* a compressor whose backing module is missing (lz4 here) is refused on load as well *)
Theorem C03_load_unavailable : forall s mmap na c, codec_available c = false ->
  load_decide s mmap na (KCodec c) = Raise ValueError.
Proof. exact load_decide_unavailable. Qed.
Print Assumptions C03_load_unavailable.
