(* C14 -- truncated or over-long files make load fail cleanly: never hang, never lie.
   (the part that is joblib's own code: BinaryZlibFile._fill_buffer / _read_all / _read_block
   and numpy_pickle_utils._read_bytes; model M6, Model/ZlibFile.v)

   A file is ANY list of raw blocks as seen through _fp.read(_BUFFER_SIZE) and the decompressor:
   every truncation point and every trailer is an instance.  [None] is the distinguished
   out-of-fuel result of the fuelled loops; termination is proved, not assumed.

   This file contains only the property theorems; proofs are in Proofs/ZlibFile*.v. *)
From Coq Require Import ZArith List.
Require Import JV.Base.PyPrelude JV.Model.ZlibFile JV.Proofs.ZlibFile JV.Proofs.ZlibFileC14 JV.Proofs.ZlibFileOps.
Import ListNotations.
Open Scope Z_scope.

(* never hang: every history (even one outside C13's scope) returns on every file, with fuel
   bounded by the number of raw blocks + 3 *)
Theorem C14_terminates : forall (file : list raw) ops fuel, (fuel_for file <= fuel)%nat ->
  run_new fuel file ops (init_state file) <> None.
Proof. exact terminates. Qed.
Print Assumptions C14_terminates.

(* never lie, truncation: read() on the file cut anywhere before the end marker (whole blocks and
   possibly a cut block whose output is a prefix of the original block's) returns a prefix of the
   original payload -- exactly what the decompressor could decode *)
Theorem C14_prefix : forall S T fuel,
  truncation_of S T -> (fuel_for (file_of T) <= fuel)%nat ->
  exists st', run_new fuel (file_of T) [ORead (-1)] (init_state (file_of T)) = Some ([VBytes (payload T)], st') /\
              is_prefix (payload T) (payload S) = true.
Proof. exact truncated_read_is_prefix. Qed.
Print Assumptions C14_prefix.

(* never lie, trailer: a complete stream followed by any bytes (in the last block and/or in
   further blocks) delivers exactly the payload, whatever the trailer *)
Theorem C14_trailer_exact : forall os o u ex fuel,
  (fuel_for (file_of (Complete os o u ex)) <= fuel)%nat ->
  exists st', run_new fuel (file_of (Complete os o u ex)) [ORead (-1)]
                      (init_state (file_of (Complete os o u ex))) = Some ([VBytes (concat (os ++ [o]))], st').
Proof. exact trailer_read_is_exact. Qed.
Print Assumptions C14_trailer_exact.

(* _read_bytes(fp, size) over any file object that never returns more than asked: terminates
   (fuel size + 1) and returns exactly `size` bytes or raises ValueError *)
Theorem C14_read_bytes : forall (F : Type) (fread : F -> Z -> F * bytes),
  (forall f n, 0 <= n -> len (snd (fread f n)) <= n) ->
  forall sz f fuel, 0 <= sz -> (Z.to_nat sz + 1 <= fuel)%nat ->
  exists r f', read_bytes F fread fuel sz f = Some (r, f') /\
               (r = Raise ValueError \/ exists d, r = Ok d /\ len d = sz).
Proof. exact read_bytes_exact. Qed.
Print Assumptions C14_read_bytes.

(* what commit "fix: BinaryZlibFile._fill_buffer stops at the end-of-stream marker" repaired
   (finding F7): with the loop as it was, a complete stream followed by at least one byte makes
   read() run out of every amount of fuel *)
Theorem C14_trailing_old_refuted : forall os o u ex fuel,
  (u <> [] \/ exists x r, ex = x :: r /\ x <> []) ->
  run_old fuel (file_of (Complete os o u ex)) [ORead (-1)] (init_state (file_of (Complete os o u ex))) = None.
Proof. exact trailing_old_spins. Qed.
Print Assumptions C14_trailing_old_refuted.

(* _read_bytes(fp, size) with fp a BinaryZlibFile (any script: truncated, trailer) in a state related to the
   abstract stream at position p: exactly the next `size` bytes when the stream holds them, ValueError with
   the stream consumed to its end when it does not -- never a short, a wrong or a missing answer; two turns
   of the loop suffice.  This is how a truncated compressed file with array data fails. *)
Theorem C14_read_bytes_zfile : forall s F st rs sz fuel,
  (fuel_for (file_of s) <= F)%nat -> Sim s st rs -> rclosed rs = false -> 0 <= sz -> (2 <= fuel)%nat ->
  exists st',
    read_bytes rstate (zread F) fuel sz st =
      Some (if sz <=? len (payload s) - rpos rs then Ok (zfirstn sz (zskipn (rpos rs) (payload s)))
            else Raise ValueError, st') /\
    Sim s st' (mkRef (if sz <=? len (payload s) - rpos rs then rpos rs + sz else len (payload s)) false).
Proof. exact read_bytes_zfile. Qed.
Print Assumptions C14_read_bytes_zfile.
