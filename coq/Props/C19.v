(* C19 -- numpy arrays persist bit-exactly and memory-map faithfully.                     (PARTIAL)

   Proved: the layout arithmetic that is joblib's own.  The integer arithmetic of
   NumpyArrayWrapper.write_array / read_array / read_mmap is TRANSLATED from the live source into
   Gen/C19_Padding.v on every run (writer_padding, writer_writes_padding, reader_skips, mmap_offset,
   max_read_count, chunk_step, writer_buffersize); NUMPY_ARRAY_ALIGNMENT_BYTES and BUFFER_SIZE come
   from Gen/C03_Constants.v.  Model/ArrayLayout.v adds the bytes written/read around it, the element
   orders, and _reduce_memmap_backed / _strided_from_memmap with numpy's byte_bounds.

   NOT proved (differential only): numpy's own (de)serialisation of dtypes, that nditer(order=..)
   visits elements in C / Fortran index order, that reshape/transpose address a flat buffer in C order,
   byte_bounds, np.memmap.

   Only property theorems here; proofs are in Proofs/ArrayLayout.v. *)
From Coq Require Import ZArith List Bool.
Require Import JV.Base.PyPrelude JV.Gen.C03_Constants JV.Gen.C19_Padding JV.Model.ArrayLayout
               JV.Proofs.ArrayLayout.
Import ListNotations.
Open Scope Z_scope.

(* For EVERY position pos >= 0 of the file handle (pos = |pre|) and A = NUMPY_ARRAY_ALIGNMENT_BYTES:
   the padding is in 1..A, fits the length byte, aligns the data; the header is 1 + pad bytes; read_array
   and read_mmap both find the data exactly where write_array put it. *)
Theorem C19_alignment : forall pos pre data, len pre = pos ->
  let A := NUMPY_ARRAY_ALIGNMENT_BYTES in
  exists pad, writer_padding A pos = Ok pad /\
  1 <= pad <= A /\ (pos + 1 + pad) mod A = 0 /\ pad < 256 /\
  exists hdr, header_bytes A pos = Ok hdr /\ len hdr = 1 + pad /\
    read_array_data_pos (pre ++ hdr ++ data) pos = Ok (pos + 1 + pad) /\
    read_mmap_offset (pre ++ hdr ++ data) pos = Ok (pos + 1 + pad) /\
    skipn (Z.to_nat (pos + 1 + pad)) (pre ++ hdr ++ data) = data.
Proof. exact alignment_live. Qed.
Print Assumptions C19_alignment.

Example C19_alignment_example : writer_padding NUMPY_ARRAY_ALIGNMENT_BYTES 21 = Ok 10 /\
  header_bytes NUMPY_ARRAY_ALIGNMENT_BYTES 21 = Ok (10 :: repeat 255 10%nat).
Proof. exact alignment_example. Qed.
Print Assumptions C19_alignment_example.

(* For every shape of any rank (zero extents included), either order, every in-bounds index vector:
   the element read back at idx is the element written from idx -- "F-order write, reshape to the
   reversed shape, transpose" and "C-order write, reshape" both address the same element; exactly
   count(shape) elements are written; with a zero extent nothing is written and nothing is addressable. *)
Theorem C19_order : forall (T : Type) (o : order) (shape : list nat) (elem : list nat -> T) idx d,
  in_bounds shape idx ->
  read_elem o shape (write_elems o shape elem) idx d = elem idx /\
  length (write_elems o shape elem) = count shape /\
  c_index (rev shape) (rev idx) = f_index shape idx.
Proof.
  intros T o shape elem idx d H. destruct (order_roundtrip T o shape elem idx d H) as [H1 H2].
  exact (conj H1 (conj H2 (c_index_rev shape idx (in_bounds_length shape idx H)))).
Qed.
Print Assumptions C19_order.

Theorem C19_order_zero_extent : forall shape, In 0%nat shape ->
  count shape = 0%nat /\ forall idx, ~ in_bounds shape idx.
Proof. exact zero_extent_empty. Qed.
Print Assumptions C19_order_zero_extent.

Example C19_order_example :
  write_elems OrdF [2; 3]%nat (fun idx => idx) = [[0; 0]; [1; 0]; [0; 1]; [1; 1]; [0; 2]; [1; 2]]%nat /\
  read_elem OrdF [2; 3]%nat (write_elems OrdF [2; 3]%nat (fun idx => idx)) [1; 2]%nat [] = [1; 2]%nat.
Proof. exact order_example. Qed.
Print Assumptions C19_order_example.

(* The chunked read loop, for every element count >= 0 and item size >= 1, with the live BUFFER_SIZE:
   max_read_count >= 1; the chunks tile [0, count) contiguously and in order; each read asks for
   read_count * itemsize bytes with 1 <= read_count <= max_read_count; exactly count * itemsize bytes are
   read and, reads being exact (_read_bytes), their concatenation is that prefix of the stream. *)
Theorem C19_chunks : forall itemsize cnt, 1 <= itemsize -> 0 <= cnt ->
  exists mrc l, max_read_count BUFFER_SIZE itemsize = Ok mrc /\ 1 <= mrc /\
    chunks BUFFER_SIZE itemsize cnt = Ok l /\
    contiguous 0 l /\ sum_rc l = cnt /\ sumZ (sizes l) = cnt * itemsize /\
    Forall (fun c => 1 <= snd (fst c) <= mrc /\ snd c = snd (fst c) * itemsize) l /\
    forall s, concat (reads (sizes l) s) = firstn (Z.to_nat (cnt * itemsize)) s.
Proof. intros. apply chunks_spec; [exact live_buffer_size_pos | assumption | assumption]. Qed.
Print Assumptions C19_chunks.

Example C19_chunks_example : chunks BUFFER_SIZE 8 100000 =
  Ok [(0, 32768, 262144); (32768, 32768, 262144); (65536, 32768, 262144); (98304, 1696, 13568)].
Proof. exact chunks_example. Qed.
Print Assumptions C19_chunks_example.

(* _reduce_memmap_backed / _strided_from_memmap, for every view of a memmap.  [reduce_memmap] runs the decision and
   the arithmetic TRANSLATED from the source ([reduce_args]) on numpy's byte_bounds:
   (a) non-contiguous, no negative stride: every element is rebuilt at its own file offset, and when the
       strides are multiples of the item size the rebuilt enclosing buffer contains every element;
   (b) contiguous in numpy's relaxed sense (C or F, whatever the order of the backing memmap): every element is
       rebuilt at its own file offset -- same bytes, same order -- and the rebuilt buffer is the view's extent.
   The cases outside these hypotheses are the refuted statements below. *)
Theorem C19_memmap_view : forall a m r idx,
  reduce_memmap a m = Ok r -> in_boundsZ (v_shape a) idx ->
  (v_c a = false -> v_f a = false -> 1 <= v_isz a -> Forall (fun st => 0 <= st) (v_strides a) ->
     recon_elem_off a r idx = orig_elem_off a m idx /\
     (Forall (fun st => (v_isz a | st)) (v_strides a) ->
        fst (recon_range a r) <= recon_elem_off a r idx /\
        recon_elem_off a r idx + v_isz a <= snd (recon_range a r))) /\
  (0 <= v_isz a ->
   (v_c a = true /\ is_c_contig (v_shape a) (v_strides a) (v_isz a) = true) \/
   (v_c a = false /\ v_f a = true /\ is_f_contig_from (v_isz a) (v_shape a) (v_strides a) = true
    /\ Forall (fun st => 0 <= st) (v_strides a)) ->
   recon_elem_off a r idx = orig_elem_off a m idx /\
   recon_range a r = (orig_elem_off a m (map (fun _ => 0) idx),
                      orig_elem_off a m (map (fun _ => 0) idx) + prodZ (v_shape a) * v_isz a)).
Proof.
  intros a m r idx Hr Hb. split.
  - intros Hc Hf Hi Hs. exact (memmap_strided a m r idx Hc Hf Hi Hs Hr Hb).
  - intros Hi Hcase. exact (memmap_contiguous a m r idx Hi Hb Hr Hcase).
Qed.
Print Assumptions C19_memmap_view.

(* the translated source and the hand model of _reduce_memmap_backed agree on every view; the canonical C / F
   strides are contiguous in numpy's relaxed sense *)
Theorem C19_reduce_translation_matches_model :
  (forall a m, reduce_memmap a m = reduce_memmap_hand a m) /\
  (forall shape isz, is_c_contig shape (c_strides shape isz) isz = true) /\
  (forall shape isz, is_f_contig_from isz shape (f_strides shape isz) = true).
Proof.
  exact (conj reduce_memmap_eq_hand (conj c_strides_contig (fun shape isz => f_strides_contig shape isz))).
Qed.
Print Assumptions C19_reduce_translation_matches_model.

(* the transpose of a C-ordered memmap (finding F28, fixed in /repo): the order of the view is sent *)
Example C19_memmap_transposed_example :
  reduce_memmap transposed_view c_backing = Ok (0, OrdF, None, None) /\
  is_f_contig_from (v_isz transposed_view) (v_shape transposed_view) (v_strides transposed_view) = true /\
  recon_elem_off transposed_view (0, OrdF, None, None) [0; 1] = 24 /\
  orig_elem_off transposed_view c_backing [0; 1] = 24.
Proof. exact transposed_example. Qed.
Print Assumptions C19_memmap_transposed_example.

(* F28 as a refutation of the OLD rule (order of the backing memmap for a contiguous view), kept so that the
   positive statement (b) is seen to exclude it: under [reduce_memmap_old] m.T is rebuilt at other bytes *)
Theorem C19_memmap_old_order_rule_refuted : exists r,
  reduce_memmap_old transposed_view c_backing = Ok r /\ in_boundsZ (v_shape transposed_view) [0; 1] /\
  v_c transposed_view = np_c_contig (v_shape transposed_view) (v_strides transposed_view) (v_isz transposed_view) /\
  v_f transposed_view = np_f_contig (v_shape transposed_view) (v_strides transposed_view) (v_isz transposed_view) /\
  recon_elem_off transposed_view r [0; 1] <> orig_elem_off transposed_view c_backing [0; 1].
Proof. exact old_order_rule_refuted. Qed.
Print Assumptions C19_memmap_old_order_rule_refuted.

(* ArrayMemmapForwardReducer.__call__ (eligibility test translated, whichever dtype attribute it consults): an array
   without a backing memmap is dumped to a temporary memmap iff its dtype has no object (dtype.hasobject), a threshold is set and nbytes is STRICTLY above it; an array
   backed by a memmap is always re-mapped *)
Theorem C19_auto_memmap_threshold : forall has_backing hasobject dtype_kind max_nbytes mmap_mode nbytes,
  exists rt, forward_route has_backing hasobject dtype_kind max_nbytes mmap_mode nbytes = Ok rt /\
  (rt = RReduceBacked <-> has_backing = true) /\
  (rt = RDumpTemp <-> has_backing = false /\ hasobject = false /\ mmap_mode <> None /\
                      exists t, max_nbytes = Some t /\ t < nbytes).
Proof. exact forward_route_spec. Qed.
Print Assumptions C19_auto_memmap_threshold.

(* mmap_mode=None is documented as "None will disable memmapping" (finding F52, fixed in /repo): the array is pickled
   in the ordinary way whatever its size and the threshold -- the worker gets an in-memory copy *)
Theorem C19_mmap_mode_none_disables_memmapping : forall hasobject dtype_kind max_nbytes nbytes,
  forward_route false hasobject dtype_kind max_nbytes None nbytes = Ok RPickle.
Proof. exact mmap_mode_none_pickles. Qed.
Print Assumptions C19_mmap_mode_none_disables_memmapping.

(* "object dtype" is numpy's hasobject, not kind == 'O': a structured dtype (kind 'V') with an object field at
   any depth is pickled whatever its size and the threshold -- a dumped file of it could not be memory-mapped *)
Theorem C19_object_field_never_memmapped : forall max_nbytes mmap_mode nbytes,
  forward_route false true 86 max_nbytes mmap_mode nbytes = Ok RPickle.
Proof. exact object_field_never_memmapped. Qed.
Print Assumptions C19_object_field_never_memmapped.

(* array types and payload kinds: ndarray and memmap come back as ndarray (memmap under a memory-mapped load);
   with __array_prepare__ a subclass would be rebuilt; other subclasses are not intercepted; object arrays are
   pickled, never memory-mapped *)
Theorem C19_array_types : forall via_mmap,
  loaded_type TNdarray numpy_has_array_prepare via_mmap = (if via_mmap then TMemmap else TNdarray) /\
  loaded_type TMemmap numpy_has_array_prepare via_mmap = (if via_mmap then TMemmap else TNdarray) /\
  (forall t, loaded_type t true via_mmap = match t with TMatrix | TSubclass => t | _ => if via_mmap then TMemmap else TNdarray end) /\
  save_intercepts TSubclass = false /\ payload_kind true = PPickle2 /\ payload_kind false = PRaw /\
  (forall u, reads_via_mmap u false = false).
Proof. exact loaded_type_spec. Qed.
Print Assumptions C19_array_types.

Example C19_memmap_view_example :
  v_c strided_view = false /\ v_f strided_view = false /\ 1 <= v_isz strided_view /\
  Forall (fun st => 0 <= st) (v_strides strided_view) /\
  Forall (fun st => (v_isz strided_view | st)) (v_strides strided_view) /\
  in_boundsZ (v_shape strided_view) [2] /\
  reduce_memmap strided_view neg_backing = Ok (16, OrdF, Some [16], Some 5).
Proof. exact strided_example. Qed.
Print Assumptions C19_memmap_view_example.

(* ---- statements that are FALSE of the unchanged code (known findings F19, F20, F21, F29) ----

   Full statement wanted: for every dtype (item size >= 0) dump/load succeed; for EVERY view of a memmap
   the rebuilt array addresses the same file bytes inside its own buffer. *)

(* F19  c19:itemsize-zero-dtype -- item size 0 (np.dtype([]), 'V0'): ZeroDivisionError in write_array
   (buffersize) and in read_array (max_read_count) *)
Theorem C19_itemsize_zero_refuted :
  writer_buffersize 0 = Raise ZeroDivisionError /\ max_read_count BUFFER_SIZE 0 = Raise ZeroDivisionError.
Proof. exact itemsize_zero_raises. Qed.
Print Assumptions C19_itemsize_zero_refuted.

(* F20  c19:memmap-negative-stride-view -- a = m[::-1]: the offset names the lowest byte but as_strided
   starts there with negative strides: element 0 is the wrong element, element 1 lies before the buffer *)
Theorem C19_memmap_negative_stride_refuted : exists r,
  reduce_memmap neg_view neg_backing = Ok r /\ in_boundsZ (v_shape neg_view) [1] /\
  recon_elem_off neg_view r [0] <> orig_elem_off neg_view neg_backing [0] /\
  recon_elem_off neg_view r [1] < fst (recon_range neg_view r).
Proof. exact negative_stride_refuted. Qed.
Print Assumptions C19_memmap_negative_stride_refuted.

(* F21  c19:memmap-buffer-len-floor-nonmultiple-stride -- field view with stride 9, item size 8:
   total_buffer_len floors, the last element ends one byte after the rebuilt buffer *)
Theorem C19_memmap_buffer_len_floor_refuted : exists r,
  reduce_memmap field_view neg_backing = Ok r /\ in_boundsZ (v_shape field_view) [9] /\
  recon_elem_off field_view r [9] = orig_elem_off field_view neg_backing [9] /\
  snd (recon_range field_view r) < recon_elem_off field_view r [9] + v_isz field_view.
Proof. exact buffer_len_floor_refuted. Qed.
Print Assumptions C19_memmap_buffer_len_floor_refuted.

(* F29  c19:matrix-subclass-lost-numpy2 -- the numpy in use has no ndarray.__array_prepare__ (regenerated
   constant), so NumpyArrayWrapper.read never rebuilds the subclass: a matrix comes back as a plain ndarray *)
Theorem C19_matrix_subclass_refuted : loaded_type TMatrix numpy_has_array_prepare false <> TMatrix.
Proof. exact matrix_subclass_refuted. Qed.
Print Assumptions C19_matrix_subclass_refuted.
