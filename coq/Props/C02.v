(* C02 -- a Memory-cached function never returns a value belonging to other arguments.

   Model M4 (Model/MemoryCore.v): MemorizedFunc.__call__/call_and_shelve/_cached_call/
   _is_in_cache_and_valid/_check_previous_func_code/_call, MemorizedResult.get, Memory.clear/
   reduce_size over an abstract store, PARAMETRIC in a configuration C : cfg that supplies
     canonicalise C  (func_inspect.filter_args, ignore list applied; may raise)
     bind_spec C     (Python's own binding of the call)
     restrict C      (drop the ignored parameters)
     digest_of C     (hashing.hash)
     f C             (the user function: source text -> binding -> value, pure)
   Hypotheses of C02_sound (all about C, none about the store logic proved here):
     eqb specs   the two equality tests of C decide equality
     key_sound   equal digests => equal bindings outside the ignore list
                 [status on the real code: C07_agree o C08_inj on the fragment where filter_args is
                  right; REFUTED by F1/F2 -- see C02_key_sound_necessary and the witnesses below]
     f_respects  the user function does not depend on the parameters it asked to ignore
     uniform     the function's source text does not change (C12 treats changes)
   This file contains only the property theorems; proofs are in Proofs/Memory*.v. *)
From Coq Require Import List Bool Arith.
Require Import JV.Base.PyPrelude JV.Model.MemoryCore JV.Model.MemoryTab.
Require Import JV.Proofs.MemoryCore JV.Proofs.MemoryKept JV.Proofs.MemoryTheorems.
Import ListNotations.

(* Over ALL histories of Define / Wrap / Call / Shelve / Check / Get / ClearRef / ClearFunc / ClearMem /
   Evict / NewProcess events: every value returned by a call equals what the function computes
   for the binding of THAT call, and every .get() of a shelved reference equals what the function
   computes for the binding of the call that created the reference. *)
Theorem C02_sound :
  forall (call key_input digest binding kbinding value src : Type)
         (C : cfg call key_input digest binding kbinding value src),
  (forall a b, digest_eqb C a b = true <-> a = b) -> (forall a b, src_eqb C a b = true <-> a = b) ->
  key_sound C -> f_respects C -> uniform C ->
  forall h, Forall (call_sound C) (run C init h) /\ Forall (get_sound C) (run C init h).
Proof. intros ? ? ? ? ? ? ? C Hd Hs KS FR UN h. exact (sound_uniform C Hd Hs KS FR UN h). Qed.
Print Assumptions C02_sound.

(* key_sound cannot be dropped: any counterexample to it (two accepted calls with one digest whose
   values differ) makes the second of two calls return the value of the first. *)
Theorem C02_key_sound_necessary :
  forall (call key_input digest binding kbinding value src : Type)
         (C : cfg call key_input digest binding kbinding value src),
  (forall a b, digest_eqb C a b = true <-> a = b) -> (forall a b, src_eqb C a b = true <-> a = b) ->
  forall c1 c2 k1 k2 b1 b2,
  canonicalise C c1 = Ok k1 -> canonicalise C c2 = Ok k2 -> digest_of C k1 = digest_of C k2 ->
  bind_spec C c1 = Some b1 -> bind_spec C c2 = Some b2 ->
  f C (code C 0) b1 <> f C (code C 0) b2 ->
  exists v, nth_error (outcomes C (two_calls c1 c2)) 3 = Some (OHit v) /\ v <> f C (code C 0) b2.
Proof. intros ? ? ? ? ? ? ? C Hd Hs. apply key_sound_necessary; assumption. Qed.
Print Assumptions C02_key_sound_necessary.

(* Full statement "C02_sound without key_sound" is FALSE of the unchanged tree (findings F1, F2):
   with the key classes that the real _get_args_id produces for
     h(a, /, b):            h(1,2) then h(1,3)           (F1, positional-only parameter dropped)
     g(a=1, b=2, *, c):     g(5,c=0) then g(5,1,c=0)     (F2, default taken from the wrong index)
   the second call is a Hit that returns the first call's value.  The check replays both on the
   implementation (known findings). *)
Theorem C02_sound_refuted_F1 :
  outcomes one_cfg (two_calls f1_c1 f1_c2) = [ODone; ODone; OMiss (0, 0); OHit (0, 0)] /\
  bind_spec one_cfg f1_c2 = Some (1, 1) /\ f one_cfg (code one_cfg 0) (1, 1) = (0, 1) /\
  ~ key_sound one_cfg.
Proof.
  split; [vm_compute; reflexivity|]. split; [reflexivity|]. split; [reflexivity|].
  intros KS. specialize (KS f1_c1 f1_c2 0 0 (0, 0) (1, 1) eq_refl eq_refl eq_refl eq_refl eq_refl).
  discriminate.
Qed.
Print Assumptions C02_sound_refuted_F1.

Theorem C02_sound_refuted_F2 :
  outcomes one_cfg (two_calls f2_c1 f2_c2) = [ODone; ODone; OMiss (0, 0); OHit (0, 0)] /\
  bind_spec one_cfg f2_c2 = Some (1, 1) /\ f one_cfg (code one_cfg 0) (1, 1) = (0, 1).
Proof. split; [vm_compute; reflexivity|]. split; reflexivity. Qed.
Print Assumptions C02_sound_refuted_F2.

(* non-vacuity: all hypotheses of C02_sound hold together on ideal_cfg (key = binding class outside
   the ignore list, a function that ignores what it asked to ignore, one source text), and the
   history exercises hit, miss, a shelved reference and two calls that differ only in an ignored
   parameter *)
Example C02_hypotheses_satisfiable :
  (forall a b, digest_eqb ideal_cfg a b = true <-> a = b) /\
  (forall a b, src_eqb ideal_cfg a b = true <-> a = b) /\
  key_sound ideal_cfg /\ f_respects ideal_cfg /\ uniform ideal_cfg /\
  outcomes ideal_cfg [Define 0; Wrap 0; Call 0 (1, 3) true; Shelve 0 (2, 3) true; Get 0; Call 0 (5, 4) true]
  = [ODone; ODone; OMiss (7, 3); OShelved true 0; OGot (7, 3); OMiss (7, 4)].
Proof.
  split; [intros; apply Nat.eqb_eq|]. split; [intros; apply Nat.eqb_eq|].
  split; [intros c1 c2 k1 k2 b1 b2 H1 H2 Hd Hb1 Hb2; cbn in *; congruence|].
  split; [intros s b1 b2 H; cbn in *; congruence|]. split; [intros k k'; reflexivity|].
  vm_compute. reflexivity.
Qed.
Print Assumptions C02_hypotheses_satisfiable.

(* ---------------------------------------------------------------------------------------------------------
   The interface hypothesis DISCHARGED by composition (Model/MemoryKey.v, Proofs/MemoryKey*.v): the concrete key
       key f args kwargs = md5 (stream (filter_args f args kwargs))
   is built from model M2 (Model/FilterArgs.v) and model M3 (Model/HashEnc.v) through the explicit value bridge
   vmap / nmap, and for signatures in b-c07's fragment [sig_in_fragment] (where filter_args IS Python's binding:
   C07_agree_partial_sig) key_sound is a THEOREM (Proofs/MemoryKeySound.v: key_sound_fragment, via
   C07 agree_partial + ignore_removes and C08's decoding of the stream to the normal form of the tree).
   Remaining hypotheses: md5 has no collision; the bridge is faithful (names spelled differently, abstract values
   denote Python values that differ by more than dict / set iteration order and lie in C08's universe); the
   canonical dicts that occur are [good] and [fits] (C08's injective sub-universe); f_respects; uniform.
   The boundary of the fragment stays where the refutations put it: F1 / F2 (C02_sound_refuted_F1/F2, outside
   sig_in_fragment), F12 / F13 (C08: outside good / the digest masquerade), F43. *)
From Coq Require Import ZArith.
Require JV.Model.FilterArgs JV.Model.HashEnc JV.Proofs.HashEncDefs JV.Proofs.HashEncInj.
Require Import JV.Model.MemoryKey JV.Proofs.MemoryKey JV.Proofs.MemoryKeySound.

Theorem C02_sound_fragment :
  forall (md5 : list Z -> list Z) (vmap : Z -> HE.value) (nmap : Z -> list Z)
         (uvalue usrc : Type) (usrc_eqb : usrc -> usrc -> bool) ucode upath unamed
         (uf : usrc -> FA.binding -> uvalue) (s : FA.sig) (ign : list FA.key),
  (forall a b, usrc_eqb a b = true <-> a = b) ->
  (forall a b, md5 a = md5 b -> a = b) ->
  (forall a b, nmap a = nmap b -> a = b) ->
  (forall a b, JV.Proofs.HashEncDefs.veq (vmap a) (vmap b) -> a = b) ->
  (forall a, JV.Proofs.HashEncDefs.good (vmap a)) ->
  (forall c b, FA.wf_callb c = true -> FA.py_bind s c = Some b ->
     JV.Proofs.HashEncDefs.good (dict_tree vmap nmap (restrict_binding s ign b)) /\
     JV.Proofs.HashEncInj.fits md5 (dict_tree vmap nmap (restrict_binding s ign b))) ->
  FA.wf_sig s -> FA.sig_in_fragment s = true -> ign_ok s ign ->
  let C := key_cfg md5 vmap nmap usrc_eqb ucode upath unamed uf s ign in
  f_respects C -> uniform C ->
  forall h, Forall (call_sound C) (run C init h) /\ Forall (get_sound C) (run C init h).
Proof.
  intros md5 vmap nmap uvalue usrc usrc_eqb ucode upath unamed uf s ign Hs Hmd5 Hn Hv Hg Ht Hwf Hfr Hok C FR UN h.
  apply (sound_uniform C odigest_eqb_spec Hs); auto.
  exact (key_sound_fragment md5 vmap nmap usrc_eqb ucode upath unamed uf Hmd5 Hn Hv Hg s ign Ht Hwf Hfr Hok).
Qed.
Print Assumptions C02_sound_fragment.

(* non-vacuity: every hypothesis of C02_sound_fragment holds together for a function without parameters, integer
   argument values (vmap = VInt), names spelled by their number, md5 = identity *)
Example C02_fragment_hypotheses_satisfiable :
  let md5 := fun b : list Z => b in
  let vmap := HE.VInt in
  let nmap := fun n : Z => [n] in
  let s : FA.sig := [] in
  (forall a b, md5 a = md5 b -> a = b) /\ (forall a b, nmap a = nmap b -> a = b) /\
  (forall a b, JV.Proofs.HashEncDefs.veq (vmap a) (vmap b) -> a = b) /\
  (forall a, JV.Proofs.HashEncDefs.good (vmap a)) /\
  (forall c b, FA.wf_callb c = true -> FA.py_bind s c = Some b ->
     JV.Proofs.HashEncDefs.good (dict_tree vmap nmap (restrict_binding s [] b)) /\
     JV.Proofs.HashEncInj.fits md5 (dict_tree vmap nmap (restrict_binding s [] b))) /\
  FA.wf_sig s /\ FA.sig_in_fragment s = true /\ ign_ok s [] /\
  key md5 vmap nmap s [] (FA.mkCall [] []) <> None.
Proof.
  cbn zeta. split; [auto|]. split; [intros a b H; congruence|]. split; [exact vint_inj|]. split; [intros a; exact I|].
  split.
  - intros c b _ Hb. unfold FA.py_bind in Hb. cbn in Hb. destruct (FA.cpos c); [|destruct (is_nil _); discriminate].
    destruct (is_nil _); [|discriminate]. injection Hb as <-. apply empty_dict_ok.
  - split; [reflexivity|]. split; [reflexivity|]. split; [split; [constructor | intros c b _ k []]|].
    vm_compute. discriminate.
Qed.
Print Assumptions C02_fragment_hypotheses_satisfiable.
