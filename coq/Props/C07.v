(* C07 -- argument canonicalisation binds parameters exactly as Python does.

   Model M2 (Model/FilterArgs.v):
     py_bind s c            Python's own binding of the call c to the signature s (None = TypeError);
                            validated on every run against REALLY calling generated functions and
                            against inspect.Signature.bind
     filter_args_model      statement-by-statement model of the CURRENT joblib.func_inspect.filter_args
     canon s b              the dict the property demands: every named parameter under its name,
                            surplus positionals under '*', surplus keywords (sorted) under '**'

   Full-strength statement (FALSE of the current code, see the C07_agree_refuted_* theorems):

     C07_agree :  forall s c b, wf_sig s -> wf_call c -> py_bind s c = Some b ->
                  filter_args_model s [] None c = Ok (canon s b)

   What is proved instead, for ALL signatures (any number of parameters) and ALL calls Python accepts:
   the statement holds whenever  in_fragment s c = true :
     - the signature has no positional-only parameter,
     - *args is combined with keyword-only parameters only if no surplus positional is passed,
     - a defaulted parameter the call omits is followed by defaulted parameters only.
   Each excluded class has a witness below on which the code really deviates (known findings).

   This file contains only the property theorems; proofs are in Proofs/FilterArgs*.v. *)
From Coq Require Import ZArith List Bool.
Require Import JV.Base.PyPrelude JV.Model.FilterArgs
               JV.Proofs.FilterArgsBase JV.Proofs.FilterArgs JV.Proofs.FilterArgsIgnore JV.Proofs.FilterArgsWitness
               JV.Proofs.FilterArgsCanon JV.Proofs.FilterArgsExact JV.Model.FuncName JV.Proofs.FuncName.
Import ListNotations.
Open Scope Z_scope.

(* ---------------------------------------------------------------- agreement with Python *)
(* plain functions: in the fragment filter_args succeeds and returns Python's binding *)
Theorem C07_agree_partial : forall s c b,
  wf_sig s -> wf_call c -> in_fragment s c = true ->
  py_bind s c = Some b ->
  filter_args_model s [] None c = Ok (canon s b).
Proof. exact agree_partial. Qed.
Print Assumptions C07_agree_partial.

(* bound methods: Python binds by calling the underlying function (first parameter [selfp]) with the
   instance [sv] prepended; filter_args sees inspect.signature of the bound method, [s] *)
Theorem C07_agree_partial_method : forall selfp sv s c b,
  wf_sig (selfp :: s) -> is_positional (pkind selfp) = true ->
  wf_call c -> in_fragment s c = true ->
  ~ In (pname selfp) (map fst (ckw c)) ->
  py_bind (selfp :: s) (mkCall (sv :: cpos c) (ckw c)) = Some b ->
  filter_args_model s [] (Some (pname selfp, sv)) c = Ok (canon (selfp :: s) b).
Proof. exact agree_partial_method. Qed.
Print Assumptions C07_agree_partial_method.

(* the fragment as a property of the signature alone: no positional-only parameter, not both *args and
   keyword-only parameters, no required keyword-only parameter after a defaulted parameter.  For such a
   signature EVERY call Python accepts is canonicalised correctly (this is where joblib's own tests live) *)
Theorem C07_agree_partial_sig : forall s, wf_sig s -> sig_in_fragment s = true ->
  forall c b, wf_call c -> py_bind s c = Some b -> filter_args_model s [] None c = Ok (canon s b).
Proof.
  intros s Hwf Hs c b Hc Hb. exact (agree_partial s c b Hwf Hc (sig_in_fragment_all s c Hs) Hb).
Qed.
Print Assumptions C07_agree_partial_sig.

(* the canonical dict loses nothing: a binding has one well-shaped entry per parameter, in order, and two
   bindings of one signature with equal canonical dicts are equal up to the order inside **kwargs --
   so "equal to canon (py_bind ...)" pins down every bound value (used by C02/C06) *)
Theorem C07_bind_aligned : forall s c b, py_bind s c = Some b -> Forall2 typed s b /\ map fst b = map pname s.
Proof. intros s c b H. exact (conj (py_bind_typed s c b H) (py_bind_aligned s c b H)). Qed.
Print Assumptions C07_bind_aligned.

Theorem C07_canon_inj : forall s c1 c2 b1 b2,
  py_bind s c1 = Some b1 -> py_bind s c2 = Some b2 -> canon s b1 = canon s b2 ->
  Forall2 (fun e1 e2 => fst e1 = fst e2 /\ aveq (snd e1) (snd e2)) b1 b2.
Proof. exact py_bind_canon_inj. Qed.
Print Assumptions C07_canon_inj.

(* ---------------------------------------------------------------- the ignore list *)
(* for EVERY signature and call (inside or outside the fragment): ignoring a duplicate-free list of
   existing keys removes exactly those entries and changes nothing else *)
Theorem C07_ignore : forall s meth c ign d,
  filter_args_model s [] meth c = Ok d ->
  NoDup ign -> (forall k, In k ign -> In k (map fst d)) ->
  filter_args_model s ign meth c = Ok (filter (fun kv => negb (key_mem (fst kv) ign)) d).
Proof. exact ignore_removes. Qed.
Print Assumptions C07_ignore.

(* conversely, whenever a call with an ignore list succeeds, the list was duplicate-free, named existing
   keys only, and the result has exactly the other entries (keys of a result are never repeated) *)
Theorem C07_ignore_exactly : forall s meth c ign d d',
  filter_args_model s [] meth c = Ok d -> filter_args_model s ign meth c = Ok d' ->
  NoDup (map fst d) /\ NoDup ign /\ (forall k, In k ign -> In k (map fst d)) /\
  forall k v, In (k, v) d' <-> In (k, v) d /\ ~ In k ign.
Proof. exact ignore_exactly. Qed.
Print Assumptions C07_ignore_exactly.

(* an item that is not a key of the result (or is repeated) is rejected with ValueError *)
Theorem C07_ignore_invalid : forall s meth c ign d,
  filter_args_model s [] meth c = Ok d ->
  ~ (NoDup ign /\ forall k, In k ign -> In k (map fst d)) ->
  filter_args_model s ign meth c = Raise ValueError.
Proof. exact ignore_invalid. Qed.
Print Assumptions C07_ignore_invalid.

(* both together: in the fragment, the result with an ignore list is Python's binding minus those names *)
Theorem C07_agree_ignore_partial : forall s c b ign,
  wf_sig s -> wf_call c -> in_fragment s c = true -> py_bind s c = Some b ->
  NoDup ign -> (forall k, In k ign -> In k (map fst (canon s b))) ->
  filter_args_model s ign None c = Ok (filter (fun kv => negb (key_mem (fst kv) ign)) (canon s b)).
Proof.
  intros s c b ign Hwf Hc Hf Hb Hnd Hin.
  exact (ignore_removes s None c ign (canon s b) (agree_partial s c b Hwf Hc Hf Hb) Hnd Hin).
Qed.
Print Assumptions C07_agree_ignore_partial.

(* EXACT characterisation: when the defaults of the signature are pairwise distinct values (so that a wrong
   default is visibly wrong), the code agrees with Python on an accepted call IF AND ONLY IF the call lies in
   the fragment -- outside it the model never returns the canonical dict (a missing key for a positional-only
   parameter, ValueError for surplus positionals next to keyword-only parameters, another parameter's default
   or ValueError for an omitted default that is followed by a required parameter) *)
Theorem C07_agree_iff : forall s c b,
  wf_sig s -> wf_call c -> NoDup (flat_map dflt s) ->
  py_bind s c = Some b ->
  (filter_args_model s [] None c = Ok (canon s b) <-> in_fragment s c = true).
Proof. exact agree_iff. Qed.
Print Assumptions C07_agree_iff.

(* ignored entries do not influence the result: two calls whose (un-ignored) results have the same keys and
   differ at most under ignored keys get the same result -- hence the same cache key -- with the ignore list,
   whatever the signature, the call shapes and the kind of the ignored names (positional, keyword, '*', '**') *)
Theorem C07_ignore_noninterference : forall s meth c1 c2 ign d1 d2,
  filter_args_model s [] meth c1 = Ok d1 -> filter_args_model s [] meth c2 = Ok d2 ->
  agree_outside ign d1 d2 ->
  filter_args_model s ign meth c1 = filter_args_model s ign meth c2.
Proof. exact ignore_noninterference. Qed.
Print Assumptions C07_ignore_noninterference.

(* ... and everything that is not ignored is preserved: equal results with the ignore list force equal
   un-ignored entries *)
Theorem C07_ignore_preserves_rest : forall s meth c1 c2 ign d1 d2 r,
  filter_args_model s [] meth c1 = Ok d1 -> filter_args_model s [] meth c2 = Ok d2 ->
  filter_args_model s ign meth c1 = Ok r -> filter_args_model s ign meth c2 = Ok r ->
  forall k v, ~ In k ign -> (In (k, v) d1 <-> In (k, v) d2).
Proof. exact ignore_preserves_rest. Qed.
Print Assumptions C07_ignore_preserves_rest.

(* callables that are neither Python functions nor bound Python methods (builtins such as len, bound builtin
   methods, classes, functools.partial objects, callable instances) are not walked: they get {'*': args,
   '**': kwargs}; that form loses nothing.  (The class of these callables is regenerated from the source test,
   Proofs/FilterArgsGen.takes_fallback_gen_eq.) *)
Theorem C07_fallback_injective : forall c1 c2, filter_args_opaque c1 = filter_args_opaque c2 -> c1 = c2.
Proof. exact fallback_injective. Qed.
Print Assumptions C07_fallback_injective.

Theorem C07_fallback_class : forall is_method is_function,
  takes_fallback is_method is_function = true <-> is_method = false /\ is_function = false.
Proof. exact fallback_class. Qed.
Print Assumptions C07_fallback_class.

(* ---------------------------------------------------------------- get_func_name / the function identifier (M2b) *)
(* for an ordinary callable (module given and not "__main__", __name__ = last segment of __qualname__, no empty
   or "/"-containing segment) Memory's identifier is the dotted path module.qualname with "/" for "." *)
Theorem C07_func_id_ordinary : forall f m q,
  ordinary f m q -> Forall clean (split_on DOT (dotted_path m q)) ->
  func_id_model f = join [SLASH] (split_on DOT (dotted_path m q)).
Proof. exact func_id_ordinary. Qed.
Print Assumptions C07_func_id_ordinary.

(* exact collision class of ordinary callables: same dotted path, nothing else *)
Theorem C07_func_id_collision_iff : forall f1 m1 q1 f2 m2 q2,
  ordinary f1 m1 q1 -> ordinary f2 m2 q2 ->
  Forall clean (split_on DOT (dotted_path m1 q1)) -> Forall clean (split_on DOT (dotted_path m2 q2)) ->
  (func_id_model f1 = func_id_model f2 <-> dotted_path m1 q1 = dotted_path m2 q2).
Proof. exact func_id_collision_iff. Qed.
Print Assumptions C07_func_id_collision_iff.

(* the identifier is a function of (__module__, __name__, __qualname__, source file of a __main__ function):
   code, closure cells, bound arguments of a partial never enter it *)
Theorem C07_func_id_ignores_identity : forall f1 f2,
  f_module f1 = f_module f2 -> f_name f1 = f_name f2 -> f_qualname f1 = f_qualname f2 ->
  f_sourcefile f1 = f_sourcefile f2 -> func_id_model f1 = func_id_model f2.
Proof. exact func_id_ignores_identity. Qed.
Print Assumptions C07_func_id_ignores_identity.

(* injectivity on (module, qualname) pairs is false: function f of module pkg.mod vs method f of class mod in pkg *)
Theorem C07_func_id_refuted_module_boundary :
  f_module w_mod1 <> f_module w_mod2 /\ f_qualname w_mod1 <> f_qualname w_mod2
  /\ func_id_model w_mod1 = func_id_model w_mod2.
Proof. exact module_boundary_collision. Qed.
Print Assumptions C07_func_id_refuted_module_boundary.

(* two different closures of one factory (or two functions behind one decorator without functools.wraps, two
   lambdas, two partial objects) share the identifier; replayed on the code, where Memory then serves one's
   cached value for the other *)
Theorem C07_func_id_refuted_closure :
  f_identity w_clo1 <> f_identity w_clo2 /\ func_id_model w_clo1 = func_id_model w_clo2.
Proof. exact closure_collision. Qed.
Print Assumptions C07_func_id_refuted_closure.

(* scripts /a-b/c.py and /a/b-c.py run as __main__ share identifiers *)
Theorem C07_func_id_refuted_main_path :
  f_sourcefile w_main1 <> f_sourcefile w_main2 /\ func_id_model w_main1 = func_id_model w_main2.
Proof. exact main_path_collision. Qed.
Print Assumptions C07_func_id_refuted_main_path.

(* the IPython cell number N of "<ipython-input-N-XYZ>" never influences the identifier (re-running a cell
   keeps its cache), for every directory, every N and every hash part XYZ *)
Theorem C07_ipython_cell_number_irrelevant : forall dir n1 n2 x,
  sep_free SLASH n1 -> sep_free DASH n1 -> sep_free SLASH n2 -> sep_free DASH n2 -> sep_free SLASH x ->
  mangle_filename (ipython_cell dir n1 x) = mangle_filename (ipython_cell dir n2 x).
Proof. exact ipython_cell_number_irrelevant. Qed.
Print Assumptions C07_ipython_cell_number_irrelevant.

(* ---------------------------------------------------------------- refutations (known findings) *)
(* [agrees s self c] is the full-strength statement at one signature and call (Proofs/FilterArgsWitness.v) *)

(* F1: def f(a, /, b): f(1, 2) gives {'b': 1} -- positional-only parameters are dropped *)
Theorem C07_agree_refuted_posonly :
  ~ agrees w_posonly_sig None w_posonly_call
  /\ filter_args_model w_posonly_sig [] None w_posonly_call = Ok [(KName 2, VOne 1)].
Proof. exact (conj (deviates_not_agrees _ _ _ (proj1 posonly_deviates)) (proj2 posonly_deviates)). Qed.
Print Assumptions C07_agree_refuted_posonly.

(* F2: def f(a=1, b=2, *, c): f(5, c=0) gives b = 1 -- default taken from the merged defaults list *)
Theorem C07_agree_refuted_default_index :
  ~ agrees w_merged_sig None w_merged_call
  /\ filter_args_model w_merged_sig [] None w_merged_call
     = Ok [(KName 1, VOne 5); (KName 2, VOne 1); (KName 3, VOne 0)].
Proof. exact (conj (deviates_not_agrees _ _ _ (proj1 merged_deviates)) (proj2 merged_deviates)). Qed.
Print Assumptions C07_agree_refuted_default_index.

(* F3: def f(a, *args, b): f(1, 2, 3, b=4) raises ValueError *)
Theorem C07_agree_refuted_varargs :
  ~ agrees w_varargs_sig None w_varargs_call
  /\ filter_args_model w_varargs_sig [] None w_varargs_call = Raise ValueError.
Proof. exact (conj (deviates_not_agrees _ _ _ (proj1 varargs_deviates)) (proj2 varargs_deviates)). Qed.
Print Assumptions C07_agree_refuted_varargs.

(* F2b: def f(a, *, b=1, c): f(0, c=5) raises ValueError *)
Theorem C07_agree_refuted_kwonly_default :
  ~ agrees w_kwdefault_sig None w_kwdefault_call
  /\ filter_args_model w_kwdefault_sig [] None w_kwdefault_call = Raise ValueError.
Proof. exact (conj (deviates_not_agrees _ _ _ (proj1 kwdefault_deviates)) (proj2 kwdefault_deviates)). Qed.
Print Assumptions C07_agree_refuted_kwonly_default.

(* F17: class K: def m(self, /, **kw): K().m(self=3) gives {'self': 3, '**': {}} *)
Theorem C07_agree_refuted_method_self :
  ~ agrees w_self_sig (Some (w_self_param, 999)) w_self_call
  /\ filter_args_model w_self_sig [] (Some (19, 999)) w_self_call = Ok [(KName 19, VOne 3); (KStarStar, VDict [])].
Proof. exact (conj (deviates_not_agrees _ _ _ (proj1 self_deviates)) (proj2 self_deviates)). Qed.
Print Assumptions C07_agree_refuted_method_self.

(* hence the unrestricted statement is false of the current code *)
Theorem C07_agree_refuted :
  ~ (forall s c b, wf_sig s -> wf_call c -> py_bind s c = Some b ->
     filter_args_model s [] None c = Ok (canon s b)).
Proof. exact full_statement_false. Qed.
Print Assumptions C07_agree_refuted.

(* ---------------------------------------------------------------- non-vacuity *)
(* def f(a, b=7, *args, **kw): f(0, 1, 2, 3, z=5, y=6): inside the fragment, all four kinds of entry;
   names a=1 b=2 args=8 kw=9 y=25 z=26 *)
Example C07_example_function :
  let s := [mkParam PosOrKw 1 None; mkParam PosOrKw 2 (Some 7); mkParam VarPos 8 None; mkParam VarKw 9 None] in
  let c := mkCall [0; 1; 2; 3] [(26, 5); (25, 6)] in
  wf_sig s /\ wf_call c /\ in_fragment s c = true /\ sig_in_fragment s = true /\
  py_bind s c = Some [(1, VOne 0); (2, VOne 1); (8, VTuple [2; 3]); (9, VDict [(26, 5); (25, 6)])] /\
  filter_args_model s [] None c
    = Ok [(KName 1, VOne 0); (KName 2, VOne 1); (KStarStar, VDict [(25, 6); (26, 5)]); (KStar, VTuple [2; 3])] /\
  filter_args_model s [KName 2; KStar] None c = Ok [(KName 1, VOne 0); (KStarStar, VDict [(25, 6); (26, 5)])] /\
  filter_args_model s [KName 3] None c = Raise ValueError.
Proof. repeat split; vm_compute; reflexivity. Qed.
Print Assumptions C07_example_function.

(* def f(x, *, y, z=3): f(0, y=1): keyword-only parameters with a default looked up from the end *)
Example C07_example_kwonly :
  let s := [mkParam PosOrKw 1 None; mkParam KwOnly 2 None; mkParam KwOnly 3 (Some 3)] in
  let c := mkCall [0] [(2, 1)] in
  wf_sig s /\ wf_call c /\ in_fragment s c = true /\
  py_bind s c = Some [(1, VOne 0); (2, VOne 1); (3, VOne 3)] /\
  filter_args_model s [] None c = Ok [(KName 1, VOne 0); (KName 2, VOne 1); (KName 3, VOne 3)].
Proof. repeat split; vm_compute; reflexivity. Qed.
Print Assumptions C07_example_kwonly.

(* a signature outside the signature-level fragment, and a call to it that is still inside the per-call one:
   def f(a, *args, b): f(1, b=4) *)
Example C07_example_percall :
  wf_sig w_varargs_sig /\ sig_in_fragment w_varargs_sig = false /\
  in_fragment w_varargs_sig (mkCall [1] [(2, 4)]) = true /\
  filter_args_model w_varargs_sig [] None (mkCall [1] [(2, 4)])
    = Ok [(KName 1, VOne 1); (KName 2, VOne 4); (KStar, VTuple [])].
Proof. repeat split; vm_compute; reflexivity. Qed.
Print Assumptions C07_example_percall.

(* class K: def m(self, x, y=2, **kw): K().m(5, w=1): bound method; self=19 x=1 y=2 kw=9 w=23 *)
Example C07_example_method :
  let selfp := mkParam PosOrKw 19 None in
  let s := [mkParam PosOrKw 1 None; mkParam PosOrKw 2 (Some 2); mkParam VarKw 9 None] in
  let c := mkCall [5] [(23, 1)] in
  wf_sig (selfp :: s) /\ is_positional (pkind selfp) = true /\ wf_call c /\ in_fragment s c = true /\
  ~ In (pname selfp) (map fst (ckw c)) /\
  py_bind (selfp :: s) (mkCall (999 :: cpos c) (ckw c))
    = Some [(19, VOne 999); (1, VOne 5); (2, VOne 2); (9, VDict [(23, 1)])] /\
  filter_args_model s [] (Some (19, 999)) c
    = Ok [(KName 19, VOne 999); (KName 1, VOne 5); (KName 2, VOne 2); (KStarStar, VDict [(23, 1)])].
Proof.
  repeat split; try (vm_compute; reflexivity). vm_compute. intros [H | []]. discriminate.
Qed.
Print Assumptions C07_example_method.
