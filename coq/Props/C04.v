(* C04 -- failures surface, the call terminates, the object stays reusable (model M1). *)
From Coq Require Import List Arith.
Require Import JV.Model.ParallelCore JV.Proofs.ParallelInv1 JV.Proofs.ParallelInv4 JV.Proofs.ParallelMisc.
Import ListNotations.

(* a completion callback of an earlier call changes nothing but the in-flight bookkeeping *)
Theorem C04_stale_callback_noop : forall s t o b, stale s t ->
  except_inflight_cbmid (cb_start s t o) = except_inflight_cbmid s /\
  except_inflight_cbmid (cb_finish true s t b) = except_inflight_cbmid s.
Proof. exact stale_callback_noop. Qed.

(* a new call on an idle object starts from a clean per-call state: nothing is left over *)
Theorem C04_reuse_clean_start : forall g s cf n f, running s = false -> (phase s = Idle \/ phase s = Finished) ->
  let s' := fst (step g s (ECall cf n f)) in
  per_call_fields s' = (0, [], [], [], 0, 0, (false, false, false, [], [], [], [], false)) /\
  cid s' = S (cid s) /\ running s' = true /\ phase s' = StartFirst.
Proof. exact call_resets. Qed.

(* ... and, the C01 theorem being stated for every reachable state, the new call returns exactly the
   results of the new tasks whatever the history of the object was *)
Theorem C04_reuse_results : forall s, reach s -> mode (c s) = Ordered -> ifail s = None ->
  phase s = Finished -> exception s = false -> abandoned s = false -> delivered s = seq 0 (N s).
Proof. exact ordered_output_complete. Qed.

(* a job that stays pending longer than `timeout` surfaces as TimeoutError in the caller *)
Theorem C04_timeout : forall s j js,
  reach s -> want s = true -> phase s = Retrieving -> pend_out s = [] -> mode (c s) = Ordered ->
  jobs s = j :: js -> status_of s j = Pending ->
  snd (step true s ETimeout) = [Raised ErrTimeout].
Proof. exact timeout_raises. Qed.

(* a failing task in the sequential path is raised, after the results before it *)
Theorem C04_sequential_failure : forall tfail pre i post,
  (forall j, In j pre -> tfail j = false) -> tfail i = true ->
  seq_run tfail (pre ++ i :: post) = (pre, Some (ErrTask i)).
Proof. exact seq_run_fail. Qed.
