(* C04 -- failures surface, the call terminates, the object stays reusable (model M1). *)
From Coq Require Import List Arith.
Require Import JV.Model.ParallelCore JV.Proofs.ParallelInv1 JV.Proofs.ParallelTrk JV.Proofs.ParallelInv4 JV.Proofs.ParallelInv5
               JV.Proofs.ParallelInv6 JV.Proofs.ParallelMisc.
Require Import JV.Model.ParallelSync JV.Proofs.SyncFrame JV.Proofs.SyncThm JV.Proofs.SyncProgress JV.Proofs.ParallelProgress.
Import ListNotations.

(* a completion callback of an earlier call changes nothing but the in-flight bookkeeping *)
Theorem C04_stale_callback_noop : forall s t o b, stale s t ->
  except_inflight_cbmid (cb_start s t o) = except_inflight_cbmid s /\
  except_inflight_cbmid (cb_finish true s t b) = except_inflight_cbmid s.
Proof. exact stale_callback_noop. Qed.
Print Assumptions C04_stale_callback_noop.

(* a new call on an idle object starts from a clean per-call state: nothing is left over *)
Theorem C04_reuse_clean_start : forall g s cf n f, running s = false -> (phase s = Idle \/ phase s = Finished) ->
  let s' := fst (step g s (ECall cf n f)) in
  per_call_fields s' = (0, [], [], [], 0, 0, (false, false, false, [], [], [], [], false)) /\
  cid s' = S (cid s) /\ running s' = true /\ phase s' = StartFirst.
Proof. exact call_resets. Qed.
Print Assumptions C04_reuse_clean_start.

(* ... and, the C01 theorem being stated for every reachable state, the new call returns exactly the
   results of the new tasks whatever the history of the object was *)
Theorem C04_reuse_results : forall s, reach s -> mode (c s) = Ordered -> ifail s = None ->
  phase s = Finished -> exception s = false -> abandoned s = false -> delivered s = seq 0 (N s).
Proof. exact ordered_output_complete. Qed.
Print Assumptions C04_reuse_results.

(* a job that stays pending longer than `timeout` surfaces as TimeoutError in the caller *)
Theorem C04_timeout : forall s j js,
  reach s -> want s = true -> phase s = Retrieving -> pend_out s = [] -> mode (c s) = Ordered ->
  jobs s = j :: js -> status_of s j = Pending ->
  snd (step true s ETimeout) = [Raised ErrTimeout].
Proof. exact timeout_raises. Qed.
Print Assumptions C04_timeout.

(* a failing task in the sequential path is raised, after the results before it *)
Theorem C04_sequential_failure : forall tfail pre i post,
  (forall j, In j pre -> tfail j = false) -> tfail i = true ->
  seq_run tfail (pre ++ i :: post) = (pre, Some (ErrTask i)).
Proof. exact seq_run_fail. Qed.
Print Assumptions C04_sequential_failure.

(* a registered failure (task error, input error, timeout) is what the caller gets: once the buffered
   values of an already retrieved batch are consumed, the next request raises the error of a failed batch
   that is still in the job queue -- under every schedule *)
Theorem C04_failure_is_raised : forall s, reach s -> exception s = true -> phase s = Retrieving ->
  pend_out s = [] -> want s = true ->
  exists e t, snd (try_advance s) = Some (Raised e) /\ In t (jobs s) /\ status_of s t = Failed e.
Proof. exact failure_is_raised. Qed.
Print Assumptions C04_failure_is_raised.

(* ... and after a failure was registered the call never ends normally *)
Theorem C04_no_normal_end_after_failure : forall s, reach s -> exception s = true -> in_try (phase s) ->
  snd (try_advance s) <> Some Stop.
Proof. exact no_normal_end_after_failure. Qed.
Print Assumptions C04_no_normal_end_after_failure.

(* termination, part 1 (no hang): whenever the consumer is left waiting, the call is not aborting and
   at least one batch of THIS call is still in flight or inside its completion callback -- so under a fair
   environment (every in-flight batch eventually completes) the consumer is eventually served *)
Theorem C04_waiting_means_work_in_flight : forall s, reach s -> want s = true -> phase s = Retrieving ->
  snd (try_advance s) = None ->
  aborting s = false /\ exists t, is_cur s t = true /\ (In t (inflight s) \/ In t (cbmid s)).
Proof. exact waiting_means_work_in_flight. Qed.
Print Assumptions C04_waiting_means_work_in_flight.

(* termination, part 2 (bounded work): completions of a call are bounded by its input *)
Theorem C04_completions_bounded : forall s, reach s -> ifail s = None ->
  n_comp s <= n_disp s /\ n_disp s <= taken s /\ taken s <= N s.
Proof. exact completions_bounded. Qed.
Print Assumptions C04_completions_bounded.

(* ---- backends that do not retrieve results in their completion callback (Model/ParallelSync.v) ---- *)
(* the exception of the retrieval that failed (a task's exception, or TimeoutError from
   retrieve_result(job, timeout)) is what the call raises, at once; the object is left not running, with an
   empty job queue: reusable *)
Theorem C04_sync_failure_is_raised : forall s j e, blk s = Some j ->
  snd (sstep s (SResult (Some e))) = [SRaised e] /\
  running (base (fst (sstep s (SResult (Some e))))) = false /\
  jobs (base (fst (sstep s (SResult (Some e))))) = [] /\
  blk (fst (sstep s (SResult (Some e)))) = None.
Proof. exact sync_failure_is_raised. Qed.
Print Assumptions C04_sync_failure_is_raised.

(* a failure of the input iterable registered by any thread is raised by the caller's loop, never swallowed *)
Theorem C04_sync_input_failure_is_raised : forall s, sreach s -> exception (base s) = true ->
  phase (base s) = Retrieving -> exists e, snd (adv_s (base s)) = Some (SRaised e).
Proof. exact sync_input_failure_is_raised. Qed.
Print Assumptions C04_sync_input_failure_is_raised.

(* no hang: a caller that polls (it can neither return, raise nor block on a job) waits for a completion
   callback of a batch of THIS call that the backend still owes *)
Theorem C04_sync_waiting_means_callback_due : forall s, sreach s -> blk s = None -> phase (base s) = Retrieving ->
  snd (adv_s (base s)) = None -> blk (fst (adv_s (base s))) = None ->
  aborting (base s) = false /\ exists t, is_cur (base s) t = true /\ In t (inflight (base s)).
Proof. exact sync_waiting_means_callback_due. Qed.
Print Assumptions C04_sync_waiting_means_callback_due.

(* ---- termination variant (M1): mu s = 3 * (input not yet submitted) + 2 * |in-flight batches| + |callbacks between
   their two sections|.  (a) No event other than a new call increases it, whatever the environment and the
   consumer do; (b) the completion of any in-flight batch decreases it strictly; (c) a consumer that waits always
   has such a completion enabled, for a batch of the current call.  Hence a consumer waits for at most mu s
   completion events: the call terminates unless the backend withholds a completion for ever. ---- *)
Theorem C04_variant_never_increases : forall s e, reach s -> wf_ev e -> is_call e = false ->
  mu (fst (step true s e)) <= mu s.
Proof. exact mu_monotone. Qed.
Print Assumptions C04_variant_never_increases.

Theorem C04_completion_decreases_variant : forall s t o b, reach s -> 1 <= b -> t < length (trk s) ->
  (In t (inflight s) -> mu (fst (step true s (ECbStart t o))) < mu s) /\
  (In t (cbmid s) -> mu (fst (step true s (ECbFinish t b))) < mu s).
Proof.
  intros s t o b Hr Hb Hlt. split; intros Hin;
    [apply mu_completion_start | apply mu_completion_finish]; assumption.
Qed.
Print Assumptions C04_completion_decreases_variant.

Theorem C04_waiting_has_decreasing_completion : forall s, reach s -> want s = true -> phase s = Retrieving ->
  snd (try_advance s) = None ->
  exists e, wf_ev e /\ is_call e = false /\ mu (fst (step true s e)) < mu s /\
            (exists t, is_cur s t = true /\ (e = ECbStart t None \/ e = ECbFinish t 1)).
Proof. exact waiting_has_decreasing_completion. Qed.
Print Assumptions C04_waiting_has_decreasing_completion.

(* the same variant in the sync-retrieval model: the callback the polling caller waits for decreases it *)
Theorem C04_sync_callback_decreases_variant : forall s t b, sreach s -> 1 <= b -> t < length (trk (base s)) ->
  In t (inflight (base s)) -> mu (base (fst (sstep s (SCb t b)))) < mu (base s).
Proof. exact sync_mu_callback_decreases. Qed.
Print Assumptions C04_sync_callback_decreases_variant.

(* No deadlock, with an explicit bound: from any reachable state in which the consumer waits there is a schedule of
   at most mu s completion events -- each of a batch that is in flight or between the two sections of its
   callback -- at whose end the consumer has its answer (a value, the end of the stream, or the exception). *)
Theorem C04_bounded_waiting : forall n s, reach s -> mu s <= n -> want s = true -> phase s = Retrieving ->
  snd (try_advance s) = None ->
  exists es, es <> [] /\ length es <= n /\ Forall (fun e => wf_ev e /\ is_completion e) es /\
             last (snd (run_events true s es)) [] <> [].
Proof. exact bounded_waiting. Qed.
Print Assumptions C04_bounded_waiting.

(* ---- the sequential path (n_jobs resolves to 1): Model/ParallelSeq.v, proofs in Proofs/SeqThm.v *)
Require Import JV.Model.ParallelSeq JV.Proofs.SeqThm.

Theorem C04_seq_path_task_failure_is_raised : forall s cf i, qrunning s = false -> wf_qcfg cf -> qgen cf = false ->
  qifail cf = None -> qtfail cf = Some i -> i < qN cf ->
  snd (qstep s (QCall cf)) = [QRaised (ErrTask i)] /\
  qdelivered (fst (qstep s (QCall cf))) = seq 0 i /\
  qrunning (fst (qstep s (QCall cf))) = false /\ qiter (fst (qstep s (QCall cf))) = false.
Proof. exact seq_task_failure_is_raised. Qed.
Print Assumptions C04_seq_path_task_failure_is_raised.

(* the call always terminates: it returns, or raises an exception of a task / of the input *)
Theorem C04_seq_path_call_terminates : forall s cf, qrunning s = false -> wf_qcfg cf -> qgen cf = false ->
  (exists l, snd (qstep s (QCall cf)) = [QReturned l]) \/
  (exists e, snd (qstep s (QCall cf)) = [QRaised e] /\ e <> ErrAttr).
Proof. exact seq_list_call_terminates. Qed.
Print Assumptions C04_seq_path_call_terminates.

Theorem C04_seq_path_generator_failure : forall s s1 e, qreach s -> qstep s QNext = (s1, [QRaised e]) ->
  (e = ErrTask (length (qdelivered s)) /\ qtfail (qc s) = Some (length (qdelivered s)) \/
   e = ErrIter /\ qifail (qc s) <> None) /\
  qalive s1 = false /\ qrunning s1 = false /\ qdelivered s1 = qdelivered s.
Proof. exact seq_generator_failure. Qed.
Print Assumptions C04_seq_path_generator_failure.

(* reusable and clean: a call on an idle object behaves as on a fresh object *)
Theorem C04_seq_path_nothing_left_over : forall s cf, qrunning s = false -> qstep s (QCall cf) = qstep qinit (QCall cf).
Proof. exact seq_nothing_left_over. Qed.
Print Assumptions C04_seq_path_nothing_left_over.

Theorem C04_seq_path_idle_when_no_generator : forall s, qreach s -> qalive s = false -> qrunning s = false /\ qiter s = false.
Proof. exact seq_idle_when_no_generator. Qed.
Print Assumptions C04_seq_path_idle_when_no_generator.

(* ---- the backend refuses a batch at one of the caller's dispatches (submit raises): event ERefuse of M1.  It is part
   of `reach`: every theorem above that is stated for reachable states also covers histories with refusals. *)
Require Import JV.Proofs.ParallelRefuse.

Theorem C04_refused_dispatch_is_raised : forall g s b, (phase s = StartFirst \/ phase s = StartLoop) ->
  snd (dispatch_one_batch s b false) = true -> aborting (fst (dispatch_one_batch s b false)) = false ->
  snd (step g s (ERefuse b)) = [Raised ErrBackend] /\
  running (fst (step g s (ERefuse b))) = false /\ phase (fst (step g s (ERefuse b))) = Finished /\
  jobs (fst (step g s (ERefuse b))) = [] /\ jset (fst (step g s (ERefuse b))) = [] /\
  pend_out (fst (step g s (ERefuse b))) = [] /\ want (fst (step g s (ERefuse b))) = false /\
  aborting (fst (step g s (ERefuse b))) = true /\ exception (fst (step g s (ERefuse b))) = true.
Proof. exact refused_dispatch_is_raised. Qed.
Print Assumptions C04_refused_dispatch_is_raised.

Theorem C04_call_after_refusal_is_accepted : forall g s b cf n f, (phase s = StartFirst \/ phase s = StartLoop) ->
  snd (dispatch_one_batch s b false) = true -> aborting (fst (dispatch_one_batch s b false)) = false ->
  let s' := fst (step g s (ERefuse b)) in
  fst (step_raw g s' (ECall cf n f)) = do_call s' cf n f.
Proof. exact call_after_refusal_is_accepted. Qed.
Print Assumptions C04_call_after_refusal_is_accepted.

Example C04_refusal_example :
  snd (run_events true init refuse_demo) =
  [[]; []; [Raised ErrBackend]; []; []; []; []; []; []; []; []; [Val 0]; [Val 1]; [Stop]].
Proof. exact refuse_demo_run. Qed.
Print Assumptions C04_refusal_example.
