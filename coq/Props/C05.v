(* C05 -- killing the process at any instant never corrupts the Memory cache.

   Model M5 (Model/FsModel.v): the cache directory as a finite map path -> bytes in directory
   order, POSIX-like operations with error results, the Memory workloads as resumption programs
   [prog A = Ret a | Op fsop (res -> prog A)] written statement by statement from
   joblib/memory.py, _store_backends.py, disk.py, backports.py (+ os.makedirs, shutil.rmtree,
   os.walk).  A session = one process: Memory(location); mem.cache(f); a list of actions
   (call, call_and_shelve(...).get(), Memory.clear, MemorizedFunc.clear, reduce_size).
   Crash = [crash_run p n torn s]: the process dies before its n-th mutating operation; if that
   operation is a write and torn = Some j, the first j bytes still reach the file.
   [grun] = any number of sessions interleaved per operation, with Kill and Torn events.

   External code is universally quantified: pickle/unpickle (any compressor), the metadata json,
   the source text [code v] of version v, the comparison [code_eq], utf-8 decoding [decodes],
   the user function [f version key].  Hypotheses used: unpickle (pickle v) = Some v;
   every prefix of the current source decodes (an ASCII source); writer ids (thread id, pid) of
   different participants differ; the initial directory satisfies the invariant (e.g. is empty).

   This file contains only the property theorems; proofs are in Proofs/FsModel*.v. *)
From Coq Require Import ZArith List Bool.
Require Import JV.Base.PyPrelude JV.Model.FsModel JV.Proofs.FsModelBase JV.Proofs.FsModelThm
               JV.Proofs.FsModelProps JV.Proofs.FsModelClear JV.Proofs.FsModelSrcChange.
Import ListNotations.
Open Scope Z_scope.

(* A result file is never visible under its final name unless it is complete: whatever the
   workload (any version, any actions), whatever the crash point and torn prefix, every
   <k>/output.pkl is a whole pickle and every <k>/metadata.json the whole json.
   [InvA] = directory tree well formed + these two facts. *)
Theorem C05_atomic_visible :
  forall pickle unpickle meta parse_meta code code_eq decodes gitbytes f (sp : spec) n torn s,
  InvA pickle meta s ->
  InvA pickle meta (crash_run (sess pickle unpickle meta parse_meta code code_eq decodes gitbytes f sp) n torn s).
Proof. exact crash_A. Qed.
Print Assumptions C05_atomic_visible.

(* the same for any number of processes of any mix of source versions, killed (Kill) or killed
   inside a write (Torn) or running (Run) in any order -- repeated crashes included *)
Theorem C05_atomic_visible_any_history :
  forall pickle unpickle meta parse_meta code code_eq decodes gitbytes f (sps : list spec) evs s,
  NoDup (map spec_tid sps) -> InvA pickle meta s ->
  InvA pickle meta
    (fst (grun evs (s, map (fun sp => Some (sess pickle unpickle meta parse_meta code code_eq decodes gitbytes f sp)) sps))).
Proof. exact atomic_global. Qed.
Print Assumptions C05_atomic_visible_any_history.

(* what InvA says, spelled out *)
Theorem C05_final_names_complete : forall pickle meta s k b,
  InvA pickle meta s ->
  (lookup (POut k) s = Some b -> exists v, b = pickle v) /\ (lookup (PMeta k) s = Some b -> b = meta).
Proof. intros pickle meta s k b (_ & HO & HM & _). split; intros H; [exact (HO k b H) | exact (HM k b H)]. Qed.
Print Assumptions C05_final_names_complete.

(* Recovery: from every directory satisfying the invariant [InvB cur] (tree well formed, every
   final output.pkl of entry k is the pickle of f cur k, func_code.py is a prefix of the current
   source), after ANY crash point / torn prefix of ANY session of the current source version
   (cold or warm calls, callback-driven invalidation, shelving, compressed store = any [pickle],
   reduce_size, clear), a fresh process calling any keys, with or without a
   cache_validation_callback, gets f cur k for each, raises nothing, and leaves the invariant. *)
Theorem C05_recover :
  forall pickle unpickle meta parse_meta code code_eq decodes gitbytes f cur (sp : spec) n torn s t cb ks,
  (forall v, unpickle (pickle v) = Some v) -> (forall j, decodes (firstn j (code cur)) = true) ->
  same_version cur sp -> InvB pickle meta code f cur s ->
  let s' := crash_run (sess pickle unpickle meta parse_meta code code_eq decodes gitbytes f sp) n torn s in
  let r := run (session pickle unpickle meta parse_meta code code_eq decodes gitbytes f cur t cb (map ACall ks)) s' in
  Forall2 (fun k o => exists c, o = OVal (f cur k) c) ks (fst r) /\ InvB pickle meta code f cur (snd r).
Proof. exact recover_after_crash. Qed.
Print Assumptions C05_recover.

(* ... and after any history of any number of such processes, each killed anywhere or not *)
Theorem C05_recover_any_history :
  forall pickle unpickle meta parse_meta code code_eq decodes gitbytes f cur (sps : list spec) evs s t cb ks,
  (forall v, unpickle (pickle v) = Some v) -> (forall j, decodes (firstn j (code cur)) = true) ->
  NoDup (map spec_tid sps) -> Forall (same_version cur) sps -> InvB pickle meta code f cur s ->
  let s' := fst (grun evs (s, map (fun sp => Some (sess pickle unpickle meta parse_meta code code_eq decodes gitbytes f sp)) sps)) in
  let r := run (session pickle unpickle meta parse_meta code code_eq decodes gitbytes f cur t cb (map ACall ks)) s' in
  Forall2 (fun k o => exists c, o = OVal (f cur k) c) ks (fst r) /\ InvB pickle meta code f cur (snd r).
Proof. exact recover_after_history. Qed.
Print Assumptions C05_recover_any_history.

(* Full statement, FALSE of the code when the source changes (finding F23):
     forall histories mixing source versions, a later call returns the current function's value.
   Witness: version 1 cached keys 1 and 2; a process with version 2 is killed inside
   rmtree(func_dir) of MemorizedFunc.clear right after unlink(func_code.py); the next process
   (version 2) finds no func_code.py, writes its own WITHOUT clearing, and its call for key 2 is
   served version 1's value. *)
Theorem C05_recover_source_change_refuted :
  exists (s : fs) (n : nat),
    let s' := crash_run (Toy.session 2 2 None [ACall 1]) n None s in
    InvB Toy.pickle Toy.meta Toy.code Toy.f 1 s /\
    fst (run (Toy.session 2 3 None [ACall 1; ACall 2]) s') = [OVal (Toy.f 2 1) true; OVal (Toy.f 1 2) false] /\
    Toy.f 1 2 <> Toy.f 2 2.
Proof.
  exists toy_s1, 3%nat. split.
  - exact (proj2 (recover_B Toy.pickle Toy.unpickle Toy.meta Toy.parse_meta Toy.code Toy.code_eq Toy.decodes
             Toy.gitbytes Toy.f 1 toy_unpickle_pickle (fun j => toy_decodes_prefix 1 j eq_refl) 1 None [1; 2] []
             (InvB_empty Toy.pickle Toy.meta Toy.code Toy.f 1))).
  - exact (proj2 (proj2 f23_witness)).
Qed.
Print Assumptions C05_recover_source_change_refuted.

(* Full statement without the ASCII hypothesis, FALSE of the code (finding F24): a func_code.py
   torn inside a multi-byte utf-8 character makes every later call raise (UnicodeDecodeError is
   a ValueError, _check_previous_func_code only catches IOError/OSError). *)
Theorem C05_recover_nonascii_refuted :
  exists (n j : nat),
    let s' := crash_run (Toy.session 100 1 None [ACall 1]) n (Some j) [] in
    Toy.decodes (firstn j (Toy.code 100)) = false /\
    fst (run (Toy.session 100 2 None [ACall 1]) s') = [OExn ValueError].
Proof. exists 7%nat, 3%nat. exact (proj2 f24_witness). Qed.
Print Assumptions C05_recover_nonascii_refuted.

(* shutil.rmtree of the function directory, when nobody interferes, removes the whole subtree and
   nothing else (directory order and depth are arbitrary); hence MemorizedFunc.clear, from ANY
   well-formed tree, establishes the invariant of the current version. *)
Theorem C05_rmtree_removes_subtree : forall d s, Tree s ->
  Tree (snd (run (rmtree_unsafe (S d) false PFunc) s)) /\
  forall q, lookup q (snd (run (rmtree_unsafe (S d) false PFunc) s)) = if under_func q then None else lookup q s.
Proof. exact rmtree_func_post. Qed.
Print Assumptions C05_rmtree_removes_subtree.

Theorem C05_clear_establishes_invariant : forall pickle meta code f cur s,
  Tree s -> InvB pickle meta code f cur (snd (run (clear_func code cur) s)).
Proof. exact clear_func_post. Qed.
Print Assumptions C05_clear_establishes_invariant.

(* The source-change workload (a process whose function source differs from func_code.py calls f(k)),
   from any directory whose final files are complete: EVERY crash state (any operation index, any torn
   prefix) is of one of three kinds --
     Old b : func_code.py still holds the old text b (the next check clears again),
     Gone  : func_code.py is gone (the process died inside delete_folder/rmtree of the clear),
     InvB  : the directory satisfies the invariant of the current version
   and final files are complete in all of them. *)
Theorem C05_source_change_classified :
  forall pickle unpickle meta parse_meta code code_eq decodes gitbytes f cur t cb b k n torn s,
  decodes b = true -> code_eq b cur = false ->
  InvA pickle meta s -> lookup PCode s = Some b ->
  let s' := crash_run (session pickle unpickle meta parse_meta code code_eq decodes gitbytes f cur t cb [ACall k]) n torn s in
  InvA pickle meta s' /\ (Old b s' \/ Gone s' \/ InvB pickle meta code f cur s').
Proof. exact classified. Qed.
Print Assumptions C05_source_change_classified.

(* ... and every one of them is recovered by the next process (all its calls return the current
   function's values, nothing raises, the invariant is established) or lies in the Gone window --
   which is where finding F23 lives (C05_f23_in_window): the exact list of unrecovered crash states. *)
Theorem C05_source_change_recovered_or_listed :
  forall pickle unpickle meta parse_meta code code_eq decodes gitbytes f cur t cb b k n torn s,
  (forall v, unpickle (pickle v) = Some v) -> (forall j, decodes (firstn j (code cur)) = true) ->
  decodes b = true -> code_eq b cur = false ->
  InvA pickle meta s -> lookup PCode s = Some b ->
  let s' := crash_run (session pickle unpickle meta parse_meta code code_eq decodes gitbytes f cur t cb [ACall k]) n torn s in
  (forall t' cb' k' ks,
     Forall2 (fun k o => exists c, o = OVal (f cur k) c) (k' :: ks)
             (fst (run (session pickle unpickle meta parse_meta code code_eq decodes gitbytes f cur t' cb' (map ACall (k' :: ks))) s')) /\
     InvB pickle meta code f cur
          (snd (run (session pickle unpickle meta parse_meta code code_eq decodes gitbytes f cur t' cb' (map ACall (k' :: ks))) s')))
  \/ Gone s'.
Proof. exact recovered_or_listed. Qed.
Print Assumptions C05_source_change_recovered_or_listed.

Theorem C05_f23_in_window : Gone f23_crashed.
Proof. exact f23_in_window. Qed.
Print Assumptions C05_f23_in_window.

(* non-vacuity: the hypotheses of C05_recover hold of the concrete instantiation used by the
   correspondence check, from the empty directory *)
Example C05_hypotheses_satisfiable :
  InvB Toy.pickle Toy.meta Toy.code Toy.f 1 [] /\ InvA Toy.pickle Toy.meta [] /\
  (forall v, Toy.unpickle (Toy.pickle v) = Some v) /\ (forall j, Toy.decodes (firstn j (Toy.code 1)) = true) /\
  fst (run (Toy.session 1 1 (Some true) [ACall 1; ACall 1; AShelve 2]) [])
    = [OVal (Toy.f 1 1) true; OVal (Toy.f 1 1) false; OVal (Toy.f 1 2) true].
Proof.
  split; [apply InvB_empty|]. split; [apply InvA_empty|]. split; [exact toy_unpickle_pickle|].
  split; [intros j; apply toy_decodes_prefix; reflexivity | vm_compute; reflexivity].
Qed.
Print Assumptions C05_hypotheses_satisfiable.
