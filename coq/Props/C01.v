(* C01 -- Parallel returns what the sequential loop returns, in order, each task once.

   Model M1 (Model/ParallelCore.v), layer A: locked regions of joblib/parallel.py are atomic events;
   `reach` = every state reachable from a fresh Parallel object by ANY sequence of well-formed events
   (calls with n_jobs >= 1 and pre_dispatch >= 1, caller dispatches and callback dispatches with any batch
   size >= 1 -- i.e. batch_size='auto' whatever the heuristics decide --, completion callbacks in any
   order incl. stale ones of earlier calls, pulls, closes, timeouts).  Task i of the input has value
   `run i`, so an output stream is a list of indices; `delivered` is what the consumer received.
   This file contains only the property theorems; proofs are in Proofs/Parallel*.v. *)
From Coq Require Import List Arith ZArith.
Require Import JV.Model.ParallelCore JV.Proofs.ParallelInv1 JV.Proofs.ParallelInv4 JV.Proofs.ParallelMisc.
Require Import JV.Model.AutoBatch JV.Proofs.AutoBatch.
Require Import JV.Model.ParallelSync JV.Proofs.SyncFrame JV.Proofs.SyncInv JV.Proofs.SyncThm.
Import ListNotations.

(* every task taken from the input is in exactly one submitted batch or one look-ahead batch, in input
   order: nothing is lost, nothing is submitted twice -- for every schedule *)
Theorem C01_exactly_once : forall s, reach s -> ifail s = None ->
  concat (submitted s) ++ concat (ready s) = seq 0 (taken s) /\ taken s <= N s.
Proof. exact partition_invariant. Qed.
Print Assumptions C01_exactly_once.

Theorem C01_no_duplicates : forall s, reach s -> ifail s = None ->
  NoDup (concat (submitted s) ++ concat (ready s)).
Proof. exact submitted_nodup. Qed.
Print Assumptions C01_no_duplicates.

(* ordered mode: what has been delivered so far is always a prefix of the sequential results ... *)
Theorem C01_results_prefix : forall s, reach s -> mode (c s) = Ordered -> ifail s = None ->
  exception s = false -> abandoned s = false ->
  exists rest, delivered s ++ rest = seq 0 (taken s) /\ taken s <= N s.
Proof. exact ordered_output_is_prefix. Qed.
Print Assumptions C01_results_prefix.

(* ... and when the call ends normally it is exactly [run 0; ...; run (N-1)], whatever the completion
   order, the batch sizes and the interleaving of callbacks with the caller were, and whatever happened
   on the same object before (earlier calls, failures, stale callbacks) *)
Theorem C01_results_complete : forall s, reach s -> mode (c s) = Ordered -> ifail s = None ->
  phase s = Finished -> exception s = false -> abandoned s = false ->
  delivered s = seq 0 (N s).
Proof. exact ordered_output_complete. Qed.
Print Assumptions C01_results_complete.

(* n_jobs = 1: the sequential path yields the tasks in order, each once *)
Theorem C01_sequential : forall tfail tasks, (forall i, In i tasks -> tfail i = false) ->
  seq_run tfail tasks = (tasks, None).
Proof. exact seq_run_ok. Qed.
Print Assumptions C01_sequential.

(* batch_size='auto': whatever the measured durations (and whatever the floating-point expression
   int(old * MIN_IDEAL_BATCH_DURATION / duration) evaluates to), every batch size handed to
   dispatch_one_batch is >= 1 -- the hypothesis on batch sizes under which `reach` is defined *)
Theorem C01_auto_batch_size_positive : forall steps old, (1 <= old)%Z ->
  Forall (fun b => (1 <= b)%Z) (run_sizes old steps).
Proof. exact run_sizes_pos. Qed.
Print Assumptions C01_auto_batch_size_positive.

(* known finding F6: pre_dispatch evaluating to 0 (excluded from `reach` by wf_ev) drops every task *)
Theorem C01_predispatch_zero_refuted :
  let r := run_events true init f6_events in
  snd r = [[]; []; []; [Stop]] /\ delivered (fst r) = [] /\ N (fst r) = 3 /\ exception (fst r) = false.
Proof. exact predispatch_zero_returns_nothing. Qed.
Print Assumptions C01_predispatch_zero_refuted.

(* ---- backends that do not retrieve results in their completion callback (Model/ParallelSync.v:
   supports_retrieve_callback = False, the default of ParallelBackendBase, i.e. third-party backends).
   `sreach` = every state reachable by any sequence of calls, caller dispatches, completion callbacks
   (any order, any time, stale ones included) and retrieval outcomes. ---- *)
Theorem C01_sync_exactly_once : forall s, sreach s -> ifail (base s) = None ->
  concat (submitted (base s)) ++ concat (ready (base s)) = seq 0 (taken (base s)) /\ taken (base s) <= N (base s).
Proof. exact sync_partition. Qed.
Print Assumptions C01_sync_exactly_once.

Theorem C01_sync_results_prefix : forall s, sreach s -> ifail (base s) = None -> exception (base s) = false ->
  exists rest, delivered (base s) ++ rest = seq 0 (taken (base s)) /\ taken (base s) <= N (base s).
Proof. exact sync_results_prefix. Qed.
Print Assumptions C01_sync_results_prefix.

(* whenever such a call returns a list, it is exactly [run 0; ...; run (N-1)] *)
Theorem C01_sync_returns_sequential_results : forall s e l, sreach s -> wf_sev e ->
  In (SReturned l) (snd (sstep s e)) -> ifail (base (fst (sstep s e))) = None ->
  l = seq 0 (N (base (fst (sstep s e)))).
Proof. exact sync_returns_sequential_results. Qed.
Print Assumptions C01_sync_returns_sequential_results.

Example C01_sync_example :
  let r := srun sinit sdemo_events in
  sreach (fst r) /\ last (snd r) [] = [SReturned [0; 1; 2; 3; 4]] /\ ifail (base (fst r)) = None.
Proof.
  split; [apply sreach_run; [constructor | exact sdemo_wf]|].
  destruct sdemo_run as (A & _ & _ & D). auto.
Qed.
Print Assumptions C01_sync_example.

(* non-vacuity: a reachable state satisfying every hypothesis of C01_results_complete *)
Example C01_example :
  let s := fst (run_events true init demo_events) in
  reach s /\ phase s = Finished /\ exception s = false /\ abandoned s = false /\ delivered s = [0; 1; 2; 3; 4].
Proof.
  split; [apply reach_run; [constructor | exact demo_wf]|].
  destruct demo_run as (A & B & C & D & _). auto.
Qed.
Print Assumptions C01_example.

(* ---- the sequential path (n_jobs resolves to 1): Model/ParallelSeq.v, proofs in Proofs/SeqThm.v *)
Require Import JV.Model.ParallelSeq JV.Proofs.SeqThm.

(* return_as="list", nothing fails: exactly the sequential results; every task started and finished once; the
   input consumed exactly to its end; the object idle afterwards -- for every input length and batch size *)
Theorem C01_seq_path_returns_sequential_results : forall s cf, qrunning s = false -> wf_qcfg cf -> qgen cf = false ->
  qifail cf = None -> qtfail cf = None ->
  snd (qstep s (QCall cf)) = [QReturned (seq 0 (qN cf))] /\
  qndisp (fst (qstep s (QCall cf))) = qN cf /\ qncomp (fst (qstep s (QCall cf))) = qN cf /\
  qtaken (fst (qstep s (QCall cf))) = qN cf /\ qrunning (fst (qstep s (QCall cf))) = false.
Proof. exact seq_list_returns_sequential_results. Qed.
Print Assumptions C01_seq_path_returns_sequential_results.

(* return_as="generator": after any history the values handed out so far are 0, 1, .., k-1, and each request that
   yields gives the next one *)
Theorem C01_seq_path_generator_in_order : forall s, qreach s ->
  qdelivered s = seq 0 (length (qdelivered s)) /\
  forall s1 v, qstep s QNext = (s1, [QVal v]) -> v = length (qdelivered s) /\ qdelivered s1 = qdelivered s ++ [v].
Proof. exact seq_generator_yields_in_order. Qed.
Print Assumptions C01_seq_path_generator_in_order.

Example C01_seq_path_example : snd (qrun qinit qdemo_events) =
  [[QGen]; [QVal 0]; [QVal 1]; [QVal 2]; [QRaised (ErrTask 3)]; [QStopped]; [QReturned [0; 1; 2]]].
Proof. exact qdemo_run. Qed.
Print Assumptions C01_seq_path_example.

(* ---- across the models: the parallel paths return what the one-worker path returns (Proofs/CrossPath.v) *)
Require Import JV.Proofs.CrossPath.

(* "Parallel returns what the sequential loop returns", with joblib's own sequential loop as the reference: after ANY
   schedule of the callback-retrieval model M1 (any number of workers, any batch sizes, completions in any order, any
   earlier calls on the object) a call that ends normally has delivered exactly the list that the one-worker path
   (n_jobs = 1, ANY batch size, on any idle object) returns for an input of the same length *)
Theorem C01_parallel_equals_one_worker_path : forall s q cf,
  reach s -> mode (c s) = Ordered -> ifail s = None -> phase s = Finished -> exception s = false -> abandoned s = false ->
  qrunning q = false -> wf_qcfg cf -> qgen cf = false -> qifail cf = None -> qtfail cf = None -> qN cf = N s ->
  snd (qstep q (QCall cf)) = [QReturned (delivered s)].
Proof. exact parallel_equals_one_worker_path. Qed.
Print Assumptions C01_parallel_equals_one_worker_path.

(* the same for backends without retrieval callbacks (model M1s) *)
Theorem C01_sync_equals_one_worker_path : forall s e l q cf,
  sreach s -> wf_sev e -> In (SReturned l) (snd (sstep s e)) -> ifail (base (fst (sstep s e))) = None ->
  qrunning q = false -> wf_qcfg cf -> qgen cf = false -> qifail cf = None -> qtfail cf = None ->
  qN cf = N (base (fst (sstep s e))) ->
  snd (qstep q (QCall cf)) = [QReturned l].
Proof. exact sync_equals_one_worker_path. Qed.
Print Assumptions C01_sync_equals_one_worker_path.

Example C01_cross_path_example :
  let s := fst (run_events true init demo_events) in
  let cf := {| qN := 5; qifail := None; qtfail := None; qbs := 3; qgen := false |} in
  reach s /\ mode (c s) = Ordered /\ ifail s = None /\ phase s = Finished /\ exception s = false /\
  abandoned s = false /\ qN cf = N s /\ wf_qcfg cf /\
  snd (qstep qinit (QCall cf)) = [QReturned (delivered s)] /\ delivered s = [0; 1; 2; 3; 4].
Proof. exact cross_path_demo. Qed.
Print Assumptions C01_cross_path_example.
