(* C06 -- repeated calls are served from cache whatever the equivalent call form;
   check_call_in_cache answers for the next identical call; the wrapper accepts what Python accepts.

   Same model (M4, Model/MemoryCore.v) and configuration C as Props/C02.v.  Interface hypotheses:
     key_complete  equivalent calls (equal bindings outside the ignore list) => equal digests
                   [C07_agree o C08_order on the fragment where filter_args is right; REFUTED by F2]
     accepts       canonicalise succeeds whenever Python's binding does   [REFUTED by F3]
   C06_check_* need no hypothesis on C at all (beyond the equality tests).
   This file contains only the property theorems; proofs are in Proofs/Memory*.v. *)
From Coq Require Import List Bool Arith.
Require Import JV.Base.PyPrelude JV.Model.MemoryCore JV.Model.MemoryTab.
Require Import JV.Proofs.MemoryCore JV.Proofs.MemoryKept JV.Proofs.MemoryTheorems.
Import ListNotations.

(* In ANY history h1 ++ [Call k c] ++ h2 ++ [Call k' c'] whose first call completed and whose
   middle part h2 is quiet -- any calls, checks, shelvings whose validation callback says valid,
   .get()s, new wrappers, re-imports of the same text, FRESH PROCESSES, but no eviction
   (Evict), no clear (ClearRef / ClearFunc / ClearMem), no invalidation (vld = false) -- the second
   of two equivalent calls is a Hit: f is not executed.  (OSkip = the driver has no wrapped live
   object k' at that point, i.e. the event does not take place.) *)
Theorem C06_complete :
  forall (call key_input digest binding kbinding value src : Type)
         (C : cfg call key_input digest binding kbinding value src),
  (forall a b, digest_eqb C a b = true <-> a = b) -> (forall a b, src_eqb C a b = true <-> a = b) ->
  key_complete C -> uniform C ->
  forall h1 k c vld h2 k' c' b b' ki' v,
  bind_spec C c = Some b -> bind_spec C c' = Some b' -> restrict C b = restrict C b' ->
  canonicalise C c' = Ok ki' ->
  forallb (quiet C (code C k)) h2 = true ->
  let st1 := final C init h1 in
  (fst (step C st1 (Call k c vld)) = OHit v \/ fst (step C st1 (Call k c vld)) = OMiss v) ->
  let st3 := final C (snd (step C st1 (Call k c vld))) h2 in
  fst (step C st3 (Call k' c' true)) = OSkip \/ exists v', fst (step C st3 (Call k' c' true)) = OHit v'.
Proof. intros ? ? ? ? ? ? ? C Hd Hs. apply complete_uniform; assumption. Qed.
Print Assumptions C06_complete.

(* check_call_in_cache, asked in any state whatsoever, says True exactly when a call in that
   state would be a Hit *)
Theorem C06_check_same_state :
  forall (call key_input digest binding kbinding value src : Type)
         (C : cfg call key_input digest binding kbinding value src)
         (st : state call digest value src) k c vld,
  fst (step C st (Check k c vld)) = OCheck true <-> exists v, fst (step C st (Call k c vld)) = OHit v.
Proof. intros ? ? ? ? ? ? ? C. exact (check_same_state C). Qed.
Print Assumptions C06_check_same_state.

(* ... and, after any history, its answer is the fate of the NEXT identical call (the check itself
   may write func_code.py, wipe a stale cache or delete an invalidated entry):
   True  => the next call is a Hit (f not executed),
   False => the next call executes f (Miss; TypeError if Python rejects the call). *)
Theorem C06_check_next :
  forall (call key_input digest binding kbinding value src : Type)
         (C : cfg call key_input digest binding kbinding value src),
  (forall a b, digest_eqb C a b = true <-> a = b) -> (forall a b, src_eqb C a b = true <-> a = b) ->
  forall h k c vld b st1,
  step C (final C init h) (Check k c vld) = (OCheck b, st1) ->
  (b = true -> exists v, fst (step C st1 (Call k c vld)) = OHit v) /\
  (b = false -> (exists v, fst (step C st1 (Call k c vld)) = OMiss v) \/
                fst (step C st1 (Call k c vld)) = ORaise TypeError).
Proof. intros ? ? ? ? ? ? ? C Hd Hs. apply check_next; assumption. Qed.
Print Assumptions C06_check_next.

(* every call the plain function accepts is accepted by the wrapper, in every state *)
Theorem C06_accepts :
  forall (call key_input digest binding kbinding value src : Type)
         (C : cfg call key_input digest binding kbinding value src)
         (st : state call digest value src) k c vld b,
  accepts C -> bind_spec C c = Some b ->
  fst (step C st (Call k c vld)) = OSkip \/
  exists v, fst (step C st (Call k c vld)) = OHit v \/ fst (step C st (Call k c vld)) = OMiss v.
Proof. intros ? ? ? ? ? ? ? C. exact (call_accepts C). Qed.
Print Assumptions C06_accepts.

(* both interface hypotheses are necessary *)
Theorem C06_key_complete_necessary :
  forall (call key_input digest binding kbinding value src : Type)
         (C : cfg call key_input digest binding kbinding value src),
  (forall a b, digest_eqb C a b = true <-> a = b) -> (forall a b, src_eqb C a b = true <-> a = b) ->
  forall c1 c2 k1 k2 b1 b2,
  canonicalise C c1 = Ok k1 -> canonicalise C c2 = Ok k2 -> digest_of C k1 <> digest_of C k2 ->
  bind_spec C c1 = Some b1 -> bind_spec C c2 = Some b2 ->
  nth_error (outcomes C (two_calls c1 c2)) 3 = Some (OMiss (f C (code C 0) b2)).
Proof. intros ? ? ? ? ? ? ? C Hd Hs. apply key_complete_necessary; assumption. Qed.
Print Assumptions C06_key_complete_necessary.

Theorem C06_accepts_necessary :
  forall (call key_input digest binding kbinding value src : Type)
         (C : cfg call key_input digest binding kbinding value src) c e,
  canonicalise C c = Raise e ->
  outcomes C [Define 0; Wrap 0; Call 0 c true] = [ODone; ODone; ORaise e].
Proof. intros ? ? ? ? ? ? ? C. exact (rejected_call_outcome C). Qed.
Print Assumptions C06_accepts_necessary.

(* Full statements without the interface hypotheses are FALSE of the unchanged tree:
   F2  g(a=1, b=2, *, c): g(5, c=0) then g(5, 2, c=0) bind alike but get two keys => recomputed;
   F3  f(a, *args, b): f(1, 2, 3, b=4) is valid Python, the wrapper raises ValueError.
   The check replays both on the implementation (known findings). *)
Theorem C06_complete_refuted_F2 :
  outcomes one_cfg (two_calls f2_c1 f2_c3) = [ODone; ODone; OMiss (0, 0); OMiss (0, 0)] /\
  restrict one_cfg (0, 0) = restrict one_cfg (0, 0) /\ ~ key_complete one_cfg.
Proof.
  split; [vm_compute; reflexivity|]. split; [reflexivity|].
  intros KC. specialize (KC f2_c1 f2_c3 0 1 (0, 0) (0, 0) eq_refl eq_refl eq_refl eq_refl eq_refl).
  discriminate.
Qed.
Print Assumptions C06_complete_refuted_F2.

Theorem C06_accepts_refuted_F3 :
  bind_spec one_cfg f3_c = Some (0, 0) /\
  outcomes one_cfg [Define 0; Wrap 0; Call 0 f3_c true] = [ODone; ODone; ORaise ValueError] /\
  ~ accepts one_cfg.
Proof.
  split; [reflexivity|]. split; [vm_compute; reflexivity|].
  intros A. destruct (A f3_c (0, 0) eq_refl) as [ki H]. discriminate.
Qed.
Print Assumptions C06_accepts_refuted_F3.

(* non-vacuity: on ideal_cfg all hypotheses hold; two calls that differ only in an ignored
   parameter, with a fresh process, a re-import and other traffic in between *)
Example C06_hypotheses_satisfiable :
  key_complete ideal_cfg /\ accepts ideal_cfg /\ uniform ideal_cfg /\
  forallb (quiet ideal_cfg 7) [Check 0 (9, 9) true; NewProcess; Define 1; Wrap 1; Call 1 (8, 8) true] = true /\
  outcomes ideal_cfg ([Define 0; Wrap 0] ++ [Call 0 (1, 3) true] ++
                      [Check 0 (9, 9) true; NewProcess; Define 1; Wrap 1; Call 1 (8, 8) true] ++
                      [Check 1 (2, 3) true; Call 1 (2, 3) true])
  = [ODone; ODone; OMiss (7, 3); OCheck false; ODone; ODone; ODone; OMiss (7, 8); OCheck true; OHit (7, 3)].
Proof.
  split; [intros c1 c2 k1 k2 b1 b2 H1 H2 Hb1 Hb2 Hr; cbn in *; congruence|].
  split; [intros c b H; eexists; reflexivity|]. split; [intros k k'; reflexivity|].
  split; vm_compute; reflexivity.
Qed.
Print Assumptions C06_hypotheses_satisfiable.

(* ---------------------------------------------------------------------------------------------------------
   The interface hypotheses DISCHARGED by composition (Model/MemoryKey.v, Proofs/MemoryKey.v): for the concrete key
       key f args kwargs = md5 (stream (filter_args f args kwargs))
   built from models M2 (Model/FilterArgs.v) and M3 (Model/HashEnc.v), and signatures in b-c07's fragment
   [sig_in_fragment], key_complete and accepts are THEOREMS (key_complete_fragment, accepts_fragment): in the
   fragment filter_args returns exactly Python's binding minus the ignored keys (C07 agree_partial +
   ignore_removes), in every call form -- positional, keyword, defaults left implicit, **kwargs in any order.
   No hypothesis on md5, on the hash stream or on the values is needed for completeness.
   The boundary of the fragment: F1 / F2 / F3 (C06_complete_refuted_F2, C06_accepts_refuted_F3). *)
From Coq Require Import ZArith.
Require JV.Model.FilterArgs JV.Model.HashEnc.
Require Import JV.Model.MemoryKey JV.Proofs.MemoryKey.

Theorem C06_complete_fragment :
  forall (md5 : list Z -> list Z) (vmap : Z -> HE.value) (nmap : Z -> list Z)
         (uvalue usrc : Type) (usrc_eqb : usrc -> usrc -> bool) ucode upath unamed
         (uf : usrc -> FA.binding -> uvalue) (s : FA.sig) (ign : list FA.key),
  (forall a b, usrc_eqb a b = true <-> a = b) ->
  FA.wf_sig s -> FA.sig_in_fragment s = true -> ign_ok s ign ->
  let C := key_cfg md5 vmap nmap usrc_eqb ucode upath unamed uf s ign in
  uniform C ->
  forall h1 k c vld h2 k' c' b b' ki' v,
  bind_spec C c = Some b -> bind_spec C c' = Some b' -> restrict C b = restrict C b' ->
  canonicalise C c' = Ok ki' ->
  forallb (quiet C (code C k)) h2 = true ->
  let st1 := final C init h1 in
  (fst (step C st1 (Call k c vld)) = OHit v \/ fst (step C st1 (Call k c vld)) = OMiss v) ->
  let st3 := final C (snd (step C st1 (Call k c vld))) h2 in
  fst (step C st3 (Call k' c' true)) = OSkip \/ exists v', fst (step C st3 (Call k' c' true)) = OHit v'.
Proof.
  intros md5 vmap nmap uvalue usrc usrc_eqb ucode upath unamed uf s ign Hs Hwf Hfr Hok C UN.
  apply (complete_uniform C odigest_eqb_spec Hs); auto.
  exact (key_complete_fragment md5 vmap nmap usrc_eqb ucode upath unamed uf s ign Hwf Hfr Hok).
Qed.
Print Assumptions C06_complete_fragment.

(* in the fragment the wrapper accepts every call that Python binds, in every state *)
Theorem C06_accepts_fragment :
  forall (md5 : list Z -> list Z) (vmap : Z -> HE.value) (nmap : Z -> list Z)
         (uvalue usrc : Type) (usrc_eqb : usrc -> usrc -> bool) ucode upath unamed
         (uf : usrc -> FA.binding -> uvalue) (s : FA.sig) (ign : list FA.key),
  FA.wf_sig s -> FA.sig_in_fragment s = true -> ign_ok s ign ->
  let C := key_cfg md5 vmap nmap usrc_eqb ucode upath unamed uf s ign in
  forall (st : state FA.call (option (list Z)) uvalue usrc) k c vld b,
  bind_spec C c = Some b ->
  fst (step C st (Call k c vld)) = OSkip \/
  exists v, fst (step C st (Call k c vld)) = OHit v \/ fst (step C st (Call k c vld)) = OMiss v.
Proof.
  intros md5 vmap nmap uvalue usrc usrc_eqb ucode upath unamed uf s ign Hwf Hfr Hok C st k c vld b Hb.
  apply (call_accepts C st k c vld b); auto.
  exact (accepts_fragment md5 vmap nmap usrc_eqb ucode upath unamed uf s ign Hwf Hfr Hok).
Qed.
Print Assumptions C06_accepts_fragment.
