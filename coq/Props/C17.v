(* C17 -- parallel_config / parallel_backend settings are scoped, thread-local and correctly prioritised.

   Model M9 (Model/Config.v): the thread-local configuration, parallel_config.__init__/__exit__,
   _get_active_backend, Parallel.__init__'s backend / n_jobs / backend-kwargs resolution; programs are trees of
   `with` blocks (any depth), sequencing, observations (Parallel(...), get_active_backend(...), reading the
   configuration), `raise` and try/except, executed by any number of threads under any schedule (list of thread ids).
   [get_config_param] is REGENERATED from joblib/parallel.py (_get_config_param) on every run (Gen/T_config_param.v).
   Hypothesis of the whole model (trusted, validated by real interleaved threads in the check): `threading.local()`
   gives every thread its own `config` attribute, i.e. the state is a map from thread ids to thread states.

   Two statements of the property are FALSE of the code and are proved refuted on witnesses that the check replays on
   the implementation (known findings F16 and F17); the strongest true statements are proved next to them.

   This file contains only the property theorems; proofs are in Proofs/Config.v. *)
From Coq Require Import ZArith List Bool Lia.
Require Import JV.Model.C15Executor JV.Gen.T_executor JV.Proofs.C15Executor.
Require Import JV.Base.PyPrelude JV.Model.Config JV.Gen.T_config_param JV.Gen.T_active_backend JV.Gen.T_mp_context JV.Gen.T_backend_attrs JV.Gen.T_pool_settings JV.Proofs.Config.
Import ListNotations.
Open Scope Z_scope.

(* the regenerated _get_config_param is the three-level choice the model uses everywhere *)
Theorem C17_translation_matches_model : forall (V : Type) (param ctxv : option V) (dflt : V),
  get_config_param param ctxv dflt = Ok (gcp param ctxv dflt) /\
  gcp param ctxv dflt = match param with Some v => v | None => match ctxv with Some v => v | None => dflt end end.
Proof. exact C17_translation_matches_model_holds. Qed.
Print Assumptions C17_translation_matches_model.

(* _get_active_backend itself, REGENERATED from joblib/parallel.py on every run (Gen/T_active_backend.v), equals the model
   for every registered default backend class dk; [parallel_init_src dk] is Parallel.__init__ running it *)
Theorem C17_active_backend_regenerated : forall dk p r v c a,
  src_get_active_backend dk p r v c = active_backend_dk dk p r c /\
  parallel_init_src dk a c = parallel_init_dk dk a c.
Proof. intros. split; [apply src_active_backend_eq | apply parallel_init_src_eq_dk]. Qed.
Print Assumptions C17_active_backend_regenerated.

(* what it returns: the configuration handed back is the THREAD'S OWN configuration, with n_jobs := 1 exactly when the
   thread fallback fires (never a copy of the defaults or of another dict); the backend is the context's / default one,
   or Threading / Loky at the same nesting level when a fallback fires *)
Theorem C17_active_backend_result : forall dk p r v c b ctx,
  src_get_active_backend dk p r v c = Ok (b, ctx) ->
  let prefer := gcp p (c_prefer c) d_prefer in
  let require := gcp r (c_require c) d_require in
  let explicit := match c_backend c with Some _ => true | None => false end in
  let b0 := match c_backend c with Some b0 => b0 | None => {| ck := dk; clevel := 0 |} end in
  valid_prefer prefer = true /\ valid_require require = true /\ (prefer =? 2) && (require =? 1) = false /\
  ctx = (if force_threads explicit b0 prefer require then set_njobs c (Some (Some 1)) else c) /\
  b = (if force_threads explicit b0 prefer require then {| ck := BThr; clevel := clevel b0 |}
       else if force_processes explicit b0 prefer then {| ck := BLoky; clevel := clevel b0 |} else b0) /\
  clevel b = clevel b0.
Proof. exact src_active_backend_spec. Qed.
Print Assumptions C17_active_backend_result.

(* the hints when no context names a backend, for every default class (incl. a thread-based default registered with
   register_parallel_backend(..., make_default=True), where prefer='processes' is the live branch) *)
Theorem C17_active_backend_hints : forall dk p r v c b ctx,
  src_get_active_backend dk p r v c = Ok (b, ctx) -> c_backend c = None ->
  let prefer := gcp p (c_prefer c) d_prefer in
  let require := gcp r (c_require c) d_require in
  (require = 1 -> supports_sharedmem (ck b) = true) /\
  (prefer = 1 -> uses_threads (ck b) = true) /\
  (prefer = 2 -> uses_threads (ck b) = false \/ ck b = BLoky) /\
  (prefer = 0 -> require = 0 -> b = {| ck := dk; clevel := 0 |} /\ ctx = c).
Proof. exact src_active_backend_hints. Qed.
Print Assumptions C17_active_backend_hints.

(* SCOPED.  Every program fragment p -- in particular every `with` block, whatever it contains: blocks at any depth,
   failing manager constructions, failing Parallel(...) calls, raise, try/except -- started by thread t with
   configuration c on top of any stack k, is back at stack k with configuration c after at most steps_bound p of ITS OWN
   steps, by normal completion or by an exception, under EVERY schedule of the other threads. *)
Theorem C17_scoped : forall (g : gstate) (t : nat) (p : prog) (c : config) (k : list frame) (tr : list obsr),
  g t = mk c (Run p) k tr ->
  exists n, (1 <= n <= steps_bound p)%nat /\
    forall sched, count_tid t sched = n ->
      t_cur (grun sched g t) = c /\ t_stack (grun sched g t) = k /\
      (t_ctl (grun sched g t) = Done \/ t_ctl (grun sched g t) = Throw).
Proof. exact scoped_any_schedule. Qed.
Print Assumptions C17_scoped.

(* ... and a thread that runs a whole program halts with the configuration it started with *)
Theorem C17_scoped_whole_program : forall p c,
  let ts := run_solo (steps_bound p) (start c p) in halted ts = true /\ t_cur ts = c /\ t_stack ts = [].
Proof. exact solo_scoped. Qed.
Print Assumptions C17_scoped_whole_program.

(* A FAILED CONSTRUCTION CHANGES NOTHING.  parallel_config(...) / parallel_backend(...) refuse exactly the argument
   combinations [rejected] (no backend but inner_max_num_threads / extra backend params; unknown backend name; an instance
   together with backend params; inner_max_num_threads with a backend that does not support it), whatever the current
   configuration; the refused call leaves the thread's configuration, its open blocks and its observations untouched (under
   every schedule), and `try: with <refused>: ... except: pass` followed by p is indistinguishable from p alone. *)
Theorem C17_failed_construction_changes_nothing :
  (forall s old, (exists e, enter s old = Raise e) <-> rejected s = true) /\
  (forall g t m s body c k tr sched,
     g t = mk c (Run (PWith m s body)) k tr -> rejected (norm_spec m s) = true -> count_tid t sched = 1%nat ->
     grun sched g t = mk c Throw k tr) /\
  (forall m s body p c k tr n, rejected (norm_spec m s) = true ->
     iter (5 + n) (mk c (Run (PSeq (PTry (PWith m s body)) p)) k tr) = iter n (mk c (Run p) k tr)).
Proof.
  split; [exact enter_rejected_iff|]. split; [exact failed_construction_any_schedule | exact failed_construction_invisible].
Qed.
Print Assumptions C17_failed_construction_changes_nothing.

(* THREAD-LOCAL.  A step of thread t leaves every other thread's state (configuration, stack, observations) unchanged,
   and under any schedule the state of a thread -- hence everything it observes -- is exactly what its own steps alone
   produce: no thread ever observes another thread's settings. *)
Theorem C17_thread_local :
  (forall g t u, u <> t -> gstep g t u = g u) /\
  (forall sched g t, grun sched g t = iter (count_tid t sched) (g t)).
Proof. exact C17_thread_local_holds. Qed.
Print Assumptions C17_thread_local.

(* In every state a thread can reach (any schedule, any program, started with the default configuration) the
   configuration is determined by the `with` blocks the thread is currently inside of. *)
Theorem C17_reachable_config : forall sched g t p,
  g t = start default_config p ->
  stack_inv default_config (t_stack (grun sched g t)) (t_cur (grun sched g t)).
Proof. exact C17_reachable_config_holds. Qed.
Print Assumptions C17_reachable_config.

(* PRIORITY.  For a Parallel(args) constructed successfully by a thread inside the blocks [specs_of k] (innermost first):
   explicit argument > innermost enclosing block that sets the key > outer blocks > default, for verbose, temp_folder,
   max_nbytes (then converted), mmap_mode, prefer, require; for n_jobs whenever the forced thread fallback of
   _get_active_backend does not fire (and always when n_jobs is passed explicitly); for the backend class: explicit
   argument, else -- fallback not firing -- the innermost block naming a backend, else the default LokyBackend. *)
Theorem C17_priority : forall k cur a r,
  stack_inv default_config k cur -> parallel_init_src BLoky a cur = Ok r ->
  let sp := specs_of k in
  r_verbose r = prio (a_verbose a) s_verbose sp d_verbose /\
  r_kw_verbose r = Z.max 0 (prio (a_verbose a) s_verbose sp d_verbose - 50) /\
  r_kw_temp r = prio (a_temp a) s_temp sp d_temp /\
  r_kw_mmap r = prio (a_mmap a) s_mmap sp d_mmap /\
  r_kw_prefer r = prio (a_prefer a) s_prefer sp d_prefer /\
  r_kw_require r = prio (a_require a) s_require sp d_require /\
  conv_maxnb (prio (a_maxnb a) s_maxnb sp d_maxnb) = Ok (r_kw_maxnb r) /\
  (forall n, njobs_arg a = Some n -> r_njobs r = n) /\
  (njobs_arg a = None -> forced a cur = false ->
     r_njobs r = match innermost s_njobs sp with Some (Some n) => n | _ => default_n_jobs (r_kind r) end) /\
  (forall kd l, a_backend a = Some (BInst kd l) -> r_kind r = kd) /\
  (a_backend a = None -> forced a cur = false ->
     r_kind r = match innermost spec_kind sp with Some kd => kd | None => BLoky end).
Proof. exact C17_priority_src. Qed.
Print Assumptions C17_priority.

(* The one documented exception (asserted by the repo's test_backend_hinting_and_constraints for a context that names a
   process backend together with require='sharedmem'): when the forced thread fallback fires and n_jobs is not passed
   explicitly, the instance gets the backend's default n_jobs = 1 and, with no backend argument, ThreadingBackend. *)
Theorem C17_priority_forced_fallback : forall cur a r,
  parallel_init_src BLoky a cur = Ok r -> forced a cur = true ->
  (njobs_arg a = None -> r_njobs r = 1) /\ (a_backend a = None -> r_kind r = BThr).
Proof. exact C17_priority_forced_fallback_src. Qed.
Print Assumptions C17_priority_forced_fallback.

(* full statement "the innermost context's n_jobs wins over the default whenever n_jobs is not passed explicitly and no
   context names a backend that has to be replaced" is FALSE of the code (F16):
     with parallel_config(n_jobs=2): Parallel(prefer='threads').n_jobs == 1
   (witness: F16_spec / F16_args in Proofs/Config.v; replayed on the implementation by the check) *)
Theorem C17_priority_njobs_refuted : exists k cur a r,
  stack_inv default_config k cur /\ parallel_init_src BLoky a cur = Ok r /\
  njobs_arg a = None /\ a_backend a = None /\ innermost spec_kind (specs_of k) = None /\
  innermost s_njobs (specs_of k) = Some (Some 2) /\ r_njobs r = 1.
Proof. exact C17_priority_njobs_refuted_src. Qed.
Print Assumptions C17_priority_njobs_refuted.

(* SHAREDMEM.  A successfully constructed Parallel has a backend with shared memory whenever require='sharedmem' is
   passed to it, and whenever it is the resolved setting (argument or context) and no backend is passed explicitly to
   Parallel: a process backend named by the context is replaced by ThreadingBackend; an explicit process backend
   together with an explicit require='sharedmem' is rejected (construction fails). *)
Theorem C17_sharedmem : forall a c r, parallel_init_src BLoky a c = Ok r ->
  (a_require a = Some 1 -> supports_sharedmem (r_kind r) = true) /\
  (res_require a c = 1 -> a_backend a = None -> supports_sharedmem (r_kind r) = true).
Proof. exact C17_sharedmem_src. Qed.
Print Assumptions C17_sharedmem.

(* full statement "require='sharedmem' (argument or context) always yields a backend with shared memory" is FALSE of the
   code (F17): Parallel.__init__ tests the ARGUMENT `require`, not the resolved setting:
     with parallel_config(require='sharedmem'): Parallel(backend='loky', n_jobs=2)  -> LokyBackend
   (witness: F17_spec / F17_args in Proofs/Config.v; replayed on the implementation by the check) *)
Theorem C17_sharedmem_context_refuted : exists k cur a r,
  stack_inv default_config k cur /\ parallel_init_src BLoky a cur = Ok r /\
  r_kw_require r = 1 /\ supports_sharedmem (r_kind r) = false.
Proof. exact C17_sharedmem_context_refuted_src. Qed.
Print Assumptions C17_sharedmem_context_refuted.

(* PREFER IS ONLY A HINT.  Whatever prefer is (argument or context): a backend passed to Parallel is the one used; a
   backend named by the context is the one used (class and nesting level) unless the resolved require is 'sharedmem';
   only when no backend is named anywhere do the hints choose (threads for require='sharedmem' / prefer='threads'). *)
Theorem C17_prefer_hint : forall a c r, parallel_init_src BLoky a c = Ok r ->
  (forall kd l, a_backend a = Some (BInst kd l) -> r_kind r = kd) /\
  (forall b, a_backend a = None -> c_backend c = Some b -> res_require a c <> 1 ->
     r_kind r = ck b /\ r_level r = clevel b) /\
  (a_backend a = None -> c_backend c = None ->
     r_kind r = if (res_require a c =? 1) || (res_prefer a c =? 1) then BThr else BLoky).
Proof. exact C17_prefer_hint_src. Qed.
Print Assumptions C17_prefer_hint.

(* invalid or inconsistent hints never produce an instance *)
Theorem C17_invalid_rejected : forall a c r, parallel_init_src BLoky a c = Ok r ->
  valid_prefer (res_prefer a c) = true /\ valid_require (res_require a c) = true /\
  a_backend a <> Some BInvalid.
Proof. exact C17_invalid_rejected_src. Qed.
Print Assumptions C17_invalid_rejected.

(* START METHOD.  The multiprocessing context handed to the process backends is one more resolved setting;
   [src_mp_context] is REGENERATED from Parallel.__init__ (every store to _backend_kwargs["context"], in source order, with its
   guard: Gen/T_mp_context.v).  A context object passed as `backend=` beats JOBLIB_START_METHOD beats mp.get_context(). *)
Theorem C17_start_method_priority : forall env arg dflt,
  src_mp_context env arg dflt = Some (gcp arg env dflt) /\
  (forall a, arg = Some a -> src_mp_context env arg dflt = Some a) /\
  (forall e, arg = None -> env = Some e -> src_mp_context env arg dflt = Some e) /\
  (arg = None -> env = None -> src_mp_context env arg dflt = Some dflt).
Proof. intros. split; [apply src_mp_context_eq | apply mp_context_priority]. Qed.
Print Assumptions C17_start_method_priority.

(* the class attributes _get_active_backend reads (supports_sharedmem / uses_threads of the four built-in backend classes) are
   REGENERATED from the class bodies (Gen/T_backend_attrs.v) and are the ones every theorem above uses *)
Theorem C17_backend_flags_regenerated : forall k,
  src_supports_sharedmem k = supports_sharedmem k /\ src_uses_threads k = uses_threads k.
Proof. exact backend_flags_eq. Qed.
Print Assumptions C17_backend_flags_regenerated.

(* TEMP FOLDER, one step further than Parallel's own record: the folder the pool / executor REALLY resolves
   (_memmapping_reducer._get_temp_dir, regenerated: Gen/T_pool_settings.v) is the temp_folder it was given -- i.e. the setting
   resolved by C17_priority (explicit argument > context > none) -- then JOBLIB_TEMP_FOLDER, then /dev/shm, then the system folder *)
Theorem C17_temp_folder_priority : forall arg env shm tmpdir,
  src_temp_folder arg env shm tmpdir = Some (gcp arg env (gcp shm None tmpdir)).
Proof. exact temp_folder_priority. Qed.
Print Assumptions C17_temp_folder_priority.

(* LOKY, REUSED EXECUTOR.  Whatever executor is alive (created for folder prev) and whether or not it can be reused, the loky
   pool of a call uses the temp folder resolved for THAT call: the reuse decision of get_memmapping_executor now depends on
   temp_folder (regenerated fact reuse_key_has_temp_folder), so a call with another temp_folder never inherits an executor's folder.
   (F47 -- temp_folder missing from the reuse decision -- was found by this statement and is fixed in /repo: cddb0d6.) *)
Theorem C17_loky_temp_folder_on_reuse : forall prev given other_args_equal,
  loky_folder_used reuse_key_has_temp_folder reused_executor_gets_new_manager prev given other_args_equal = given.
Proof. exact loky_folder_is_given. Qed.
Print Assumptions C17_loky_temp_folder_on_reuse.

(* the hypothesis matters: without temp_folder in the reuse decision (and the manager kept), a reused executor keeps its old folder *)
Theorem C17_loky_temp_folder_needs_reuse_key : forall prev given, loky_folder_used false false prev given true = prev.
Proof. exact loky_reused_keeps_old_folder. Qed.
Print Assumptions C17_loky_temp_folder_needs_reuse_key.

(* BACKEND-OBJECT KWARGS.  Inside Multiprocessing/LokyBackend.configure (regenerated merge) a key passed by the call -- an
   explicit Parallel argument or the setting resolved from the context -- beats the same key carried by the backend object
   (parallel_config('multiprocessing', maxtasksperchild=7) / MultiprocessingBackend(maxtasksperchild=7)); the object's value is used
   exactly when the call does not pass the key *)
Theorem C17_backend_object_kwargs : forall obj call,
  (forall v, call = Some v -> src_mp_pool_kwarg obj call = Some v /\ src_loky_executor_kwarg obj call = Some v) /\
  (call = None -> src_mp_pool_kwarg obj call = obj /\ src_loky_executor_kwarg obj call = obj).
Proof. exact pool_kwarg_merge_spec. Qed.
Print Assumptions C17_backend_object_kwargs.

(* WHOSE DEFAULT.  When neither the call nor any enclosing context gives n_jobs, Parallel.__init__ reads default_n_jobs of the
   backend the call REALLY uses (regenerated fact), which is what [parallel_init] models and C17_priority states
   (`default_n_jobs (r_kind r)`): a context backend whose default is -1 does not leak its default into a call that names
   another backend. *)
Theorem C17_default_njobs_of_used_backend : forall a c r,
  default_njobs_of_used_backend = true /\
  (parallel_init_src BLoky a c = Ok r -> njobs_arg a = None -> forced a c = false -> c_njobs c = None ->
   r_njobs r = default_n_jobs (r_kind r)).
Proof.
  intros a c r. split; [reflexivity|]. rewrite parallel_init_src_eq. intros H Ha Hf Hc.
  destruct (parallel_init_inv a c r H) as (_ & _ & _ & _ & _ & _ & _ & _ & _ & _ & Hn & _). rewrite (Hn Ha Hf), Hc. reflexivity.
Qed.
Print Assumptions C17_default_njobs_of_used_backend.

(* NESTED n_jobs.  The n_jobs a backend asks for nested calls (second component of get_nested_backend()) reaches the worker's
   context unchanged whether the batch travels through pickle (process workers) or not (threads): regenerated fact
   reduce_keeps_njobs *)
Theorem C17_nested_njobs_survives_pickling : forall pickled n,
  batch_njobs_in_worker reduce_keeps_njobs pickled n = n.
Proof. exact batch_njobs_same. Qed.
Print Assumptions C17_nested_njobs_survives_pickling.

(* EXPLICIT MEANS PASSED, NOT TRUTHY.  LokyBackend.configure (regenerated): the idle-worker timeout the executor is built with is
   the value passed by the call -- 0 included --, else the backend object's, else 300 *)
Theorem C17_idle_worker_timeout_priority : forall call obj,
  src_idle_worker_timeout call obj = Ok (gcp call obj 300) /\ src_idle_worker_timeout (Some 0) obj = Ok 0.
Proof. intros. split; [apply idle_timeout_priority | rewrite idle_timeout_priority; reflexivity]. Qed.
Print Assumptions C17_idle_worker_timeout_priority.

(* n_jobs IS SCOPED DOWN TO THE SHARED LOKY EXECUTOR (machine Model/C15Executor.v, decisions regenerated: Gen/T_executor.v).
   After ANY history -- in particular `with parallel_config(n_jobs=4): Parallel()(...)` left behind -- the executor that a later
   call with resolved n_jobs = n runs on has _max_workers = n and exactly n live workers once its tasks are submitted; a resize is
   skipped only when the sizes are equal. *)
Theorem C17_n_jobs_scoped_in_shared_executor : forall ops n_before args n s' e reused,
  get_executor n args (erun (ops ++ [OGet n_before args; OSubmit]) init_state) = Ok (s', e, reused) ->
  x_max e = n /\ 0 <= x_alive e <= n /\
  (exists e', s_exec (estep s' OSubmit) = Some e' /\ x_max e' = n /\ x_alive e' = n /\ x_id e' = x_id e) /\
  (forall m cur, resize_noop m cur = true -> m = cur).
Proof. exact executor_size_scoped. Qed.
Print Assumptions C17_n_jobs_scoped_in_shared_executor.

(* mmap_mode / max_nbytes REACH THE PLACE WHERE THEY ARE USED: both the multiprocessing pool and the loky executor hand them on to
   the memmapping reducers (regenerated facts), so the memmap a worker receives has the resolved mode ('w+' coerced to 'r+') *)
Theorem C17_mmap_mode_reaches_workers : forall resolved,
  worker_mmap_mode mp_pool_passes_mmap_mode resolved = (if resolved =? 3 then 2 else resolved) /\
  worker_mmap_mode loky_executor_passes_mmap_mode resolved = (if resolved =? 3 then 2 else resolved) /\
  mp_pool_passes_max_nbytes = true /\ loky_executor_passes_max_nbytes = true.
Proof. exact worker_mode_is_resolved. Qed.
Print Assumptions C17_mmap_mode_reaches_workers.

(* THE SETTINGS OF AN OBJECT ARE CONSTANT OVER ITS LIFE.  For every backend class and every history of __enter__ / successful
   calls / failed calls / __exit__ on one Parallel object: every configure the backend receives carries the record resolved by
   Parallel.__init__.  [abort_passes k] is the REGENERATED fact that the abort_everything of class k (LokyBackend's own,
   PoolManagerMixin's for threading / multiprocessing) reconfigures with **self.parallel._backend_kwargs.
   (F46 -- LokyBackend.abort_everything dropping them -- was found by this statement and is fixed in /repo: 6b80fa0.) *)
Theorem C17_object_settings_constant : forall k ops r,
  abort_passes k = true /\ Forall (fun c => c = CFull r) (o_calls (orun (abort_passes k) ops (new_obj r))).
Proof. exact object_settings_constant_all. Qed.
Print Assumptions C17_object_settings_constant.

(* the hypothesis matters: a backend whose abort_everything does not pass them on is reconfigured bare after a failed call *)
Theorem C17_object_settings_need_kwargs : forall r,
  o_calls (orun false [OEnter; OCallOk; OCallFail; OCallOk] (new_obj r)) = [CFull r; CBare (r_njobs r)].
Proof. exact object_settings_lost. Qed.
Print Assumptions C17_object_settings_need_kwargs.

(* non-vacuity: a depth-3 nesting with an exception, observed inside and after; the hypotheses of C17_priority hold
   in a state with three enclosing blocks and the resolution picks arguments from three different levels *)
Example C17_example :
  let s1 := {| s_backend := Some (BInst BThr None); s_njobs := Some (Some 3); s_verbose := Some 60; s_temp := None;
               s_maxnb := None; s_mmap := None; s_prefer := None; s_require := None;
     s_byname := false; s_inner := None; s_params := false |} in
  let s2 := {| s_backend := None; s_njobs := None; s_verbose := None; s_temp := Some 2; s_maxnb := Some (MStr 2 75);
               s_mmap := None; s_prefer := Some 2; s_require := None;
     s_byname := false; s_inner := None; s_params := false |} in
  let s3 := {| s_backend := Some (BInst BMp (Some 1)); s_njobs := None; s_verbose := None; s_temp := None;
               s_maxnb := None; s_mmap := Some 4; s_prefer := None; s_require := None;
     s_byname := false; s_inner := None; s_params := false |} in
  let a := {| a_njobs := None; a_backend := None; a_verbose := None; a_temp := Some 1; a_maxnb := None; a_mmap := None;
              a_prefer := None; a_require := None |} in
  let p := PSeq (PTry (PWith MConfig s1 (PWith MConfig s2 (PSeq (PWith MConfig s3 (PSeq (PObs (QParallel a)) PRaise))
                                                               (PObs QConfig)))))
                (PObs (QParallel args_empty)) in
  let ts := run_solo (steps_bound p) (start default_config p) in
  halted ts = true /\ t_cur ts = default_config /\
  t_trace ts =
    [ RParallel (Ok {| r_kind := BMp; r_level := 1; r_njobs := 3; r_verbose := 60; r_kw_maxnb := Some 2048; r_kw_temp := 1;
                       r_kw_mmap := 4; r_kw_prefer := 2; r_kw_require := 0; r_kw_verbose := 10 |});
      RParallel (Ok {| r_kind := BLoky; r_level := 0; r_njobs := 1; r_verbose := 0; r_kw_maxnb := Some 1048576;
                       r_kw_temp := 0; r_kw_mmap := 1; r_kw_prefer := 0; r_kw_require := 0; r_kw_verbose := 0 |}) ].
Proof. vm_compute. repeat split. Qed.
Print Assumptions C17_example.
