(* C15 -- n_jobs bounds concurrency; nesting never multiplies worker processes.   (PARTIAL)

   The arithmetic statements are about the Gallina functions REGENERATED on every run from
   joblib/_parallel_backends.py (Sequential/PoolManagerMixin/Loky/Multiprocessing .effective_n_jobs) and
   joblib/externals/loky/backend/context.py (_cpu_count_user, cpu_count): Gen/T_njobs.v.
   [eff_gen k e level n] is <class k>.effective_n_jobs(n) in process/thread environment e.
   The nesting statements are about M8 (Model/NJobs.v): get_nested_backend, the configure()
   fallbacks and the environment the tasks of each backend family run in; M8's arithmetic is proved
   equal to the regenerated one (C15_translation_matches_model).

   NOT proved (stated in DESIGN.md / design.d/C15.md): that multiprocessing.pool.ThreadPool(n), MemmappingPool(n)
   and the loky executor run at most n tasks at a time -- library pools; only measured by the check
   (high-water mark of simultaneously running tasks).  "A Parallel call never executes more tasks at once than
   its resolved n_jobs" is therefore proved only up to "the pool is created with exactly the resolved n_jobs".

   This file contains only the property theorems; proofs are in Proofs/NJobs.v. *)
From Coq Require Import ZArith List Bool Lia.
Require Import JV.Base.PyPrelude JV.Model.NJobs JV.Gen.T_njobs JV.Gen.T_nested JV.Gen.T_call JV.Proofs.NJobs.
Require Import JV.Model.C15Executor JV.Gen.T_executor JV.Proofs.C15Executor.
Require Import JV.Model.Config JV.Gen.T_active_backend JV.Proofs.C15Active.
Import ListNotations.
Open Scope Z_scope.

(* the regenerated source functions equal the hand model used by the correspondence check *)
Theorem C15_translation_matches_model : forall k e level n os_raw aff cg loky_env phys,
  eff_gen k e level n = eff_model k e level n /\
  cpu_count os_raw aff cg loky_env phys false = Ok (cpu_count_model os_raw aff cg loky_env).
Proof. exact C15_translation_matches_model_holds. Qed.
Print Assumptions C15_translation_matches_model.

(* a positive n_jobs is the number of workers, a negative one means cpus+1+n but at least 1; the result is
   >= 1 -- for every backend class, whenever no nesting guard fires (for all n <> 0 and all cpu counts) *)
Theorem C15_resolve : forall k e level n,
  n <> 0 -> unguarded e level ->
  exists v, eff_gen k e level n = Ok v /\ v >= 1 /\
            v = match k with KSeq => 1
                | _ => if n <? 0 then Z.max (e_cpus e + 1 + n) 1 else n end.
Proof. exact C15_resolve_holds. Qed.
Print Assumptions C15_resolve.

(* with at least one usable CPU, a negative n_jobs never exceeds the CPU count *)
Theorem C15_negative_le_cpus : forall k e level n v,
  n < 0 -> 1 <= e_cpus e -> eff_gen k e level n = Ok v -> 1 <= v <= e_cpus e.
Proof. exact C15_negative_le_cpus_holds. Qed.
Print Assumptions C15_negative_le_cpus.

(* whatever the environment, a successful resolution is >= 1 *)
Theorem C15_at_least_one : forall k e level n v, eff_gen k e level n = Ok v -> v >= 1.
Proof. exact C15_at_least_one_holds. Qed.
Print Assumptions C15_at_least_one.

(* n_jobs = 0 is rejected with ValueError: by Sequential, Threading and Loky in EVERY environment, by
   Multiprocessing in every environment in which none of its nesting guards fires *)
Theorem C15_zero_rejected : forall k e level,
  (k = KMp -> unguarded e level) -> eff_gen k e level 0 = Raise ValueError.
Proof. exact C15_zero_rejected_holds. Qed.
Print Assumptions C15_zero_rejected.

(* full statement "effective_n_jobs(0) raises ValueError in every backend and every environment" is FALSE of the code:
   MultiprocessingBackend.effective_n_jobs tests its nesting guards before n_jobs == 0 and answers 1
   (witness: a worker thread below nesting level 0); visible through joblib.effective_n_jobs(0). *)
Theorem C15_zero_rejected_refuted : exists e level,
  eff_gen KMp e level 0 = Ok 1.
Proof. exact C15_zero_rejected_refuted_holds. Qed.
Print Assumptions C15_zero_rejected_refuted.

(* ... but a Parallel CALL with n_jobs = 0 is rejected by every backend in every environment: the sequential backend
   that MultiprocessingBackend falls back to is configured with the same n_jobs and rejects it *)
Theorem C15_zero_rejected_by_parallel : forall b e, configure b e 0 = Raise ValueError.
Proof. exact configure_zero. Qed.
Print Assumptions C15_zero_rejected_by_parallel.

(* n_jobs = 1 runs in the calling thread: every backend's configure falls back to SequentialBackend *)
Theorem C15_one_is_sequential : forall b e,
  configure b e 1 = Ok ({| bkind := KSeq; blevel := blevel b |}, 1) /\
  forall s, worker_site s {| bkind := KSeq; blevel := blevel b |} = s.
Proof. exact C15_one_is_sequential_holds. Qed.
Print Assumptions C15_one_is_sequential.

(* ... and this holds for EVERY backend, user-defined ones included: Parallel.__call__ (test regenerated: Gen/T_call.v) takes the
   in-thread path exactly when the number of workers the backend's configure() returned is 1; for the built-in backends that is
   exactly when they fell back to the sequential backend *)
Theorem C15_one_worker_runs_in_calling_thread :
  (forall n, call_runs_inline n = true <-> n = 1) /\
  (forall b e n b' eff, configure b e n = Ok (b', eff) -> (call_runs_inline eff = true <-> bkind b' = KSeq)).
Proof. split; [exact call_inline_iff | exact one_worker_runs_inline]. Qed.
Print Assumptions C15_one_worker_runs_in_calling_thread.

(* configure never invents workers: it keeps the resolved number, or falls back to sequential exactly when it is 1 *)
Theorem C15_configure : forall b e n b' eff,
  configure b e n = Ok (b', eff) ->
  eff >= 1 /\ blevel b' = blevel b /\ ((bkind b' = KSeq /\ eff = 1) \/ (b' = b /\ eff <> 1)).
Proof. exact configure_spec. Qed.
Print Assumptions C15_configure.

(* cpu_count() (regenerated): at least 1, never above a constraint that allows >= 1 CPU, and exactly the
   minimum of the constraints floored at 1.  aff = affinity, cg = cgroup quota, loky_env = LOKY_MAX_CPU_COUNT *)
Theorem C15_cpu_count : forall os_raw aff cg loky_env phys,
  exists v, cpu_count os_raw aff cg loky_env phys false = Ok v /\ v >= 1 /\
  (forall c, 1 <= c -> (c = os_count os_raw \/ aff = Some c \/ cg = Some c \/ loky_env = Some c) -> v <= c) /\
  v = Z.max 1 (Z.min (os_count os_raw) (Z.min (orelse aff (os_count os_raw))
                 (Z.min (orelse cg (os_count os_raw)) (orelse loky_env (os_count os_raw))))).
Proof. exact C15_cpu_count_holds. Qed.
Print Assumptions C15_cpu_count.

(* cpu_count(only_physical_cores=True) (both paths of cpu_count are regenerated; phys = what _count_physical_cores() reports):
   a user limit below the machine's CPU count (affinity mask, cgroup quota, LOKY_MAX_CPU_COUNT) wins over the physical-core count;
   the result is >= 1 *)
Theorem C15_cpu_count_physical : forall os_raw aff cg loky_env phys,
  cpu_count os_raw aff cg loky_env phys true = Ok (cpu_count_physical_model os_raw aff cg loky_env phys) /\
  ((forall p, phys = Some p -> 1 <= p) ->
   let v := cpu_count_physical_model os_raw aff cg loky_env phys in
   let user := cpu_user_model os_raw aff cg loky_env in
   v >= 1 /\
   (user < os_count os_raw -> v = Z.max user 1 /\ v = cpu_count_model os_raw aff cg loky_env) /\
   (os_count os_raw <= user -> forall p, phys = Some p -> v = p)).
Proof. intros. split; [apply gen_cpu_count_physical_eq | apply cpu_count_physical_spec]. Qed.
Print Assumptions C15_cpu_count_physical.

(* process backends reached from a worker thread below level 0, or inside a daemonic process (a
   multiprocessing worker), or (multiprocessing) inside a loky worker, resolve to one worker: no new process *)
Theorem C15_nested_process_backend_is_sequential : forall e level n,
  n <> 0 ->
  ((e_daemon e = true \/ (e_main e = false /\ level <> 0)) -> eff_gen KLoky e level n = Ok 1) /\
  ((e_daemon e = true \/ e_depth e > 0 \/ (e_main e = false /\ level <> 0)) -> eff_gen KMp e level n = Ok 1).
Proof. exact C15_nested_process_backend_is_sequential_holds. Qed.
Print Assumptions C15_nested_process_backend_is_sequential.

(* default nesting: level 0 -> threads, level >= 1 -> sequential; and for EVERY tree of nested calls
   that leave the backend to the defaults (induction on the tree):
   - below a worker of such a call no process is ever requested;
   - a top-level call that goes parallel requests exactly its resolved n_jobs processes in total,
     however deep and wide the tree of nested calls in its tasks;
   - in general the total is the sum over the first parallel call on every path from the root. *)
Theorem C15_nesting :
  (forall k, nested_backend {| bkind := k; blevel := 0 |} = {| bkind := KThr; blevel := 1 |}) /\
  (forall k l, 1 <= l -> nested_backend {| bkind := k; blevel := l |} = {| bkind := KSeq; blevel := l + 1 |}) /\
  (forall c s, worker_inv s -> default_tree c = true -> procs s c = 0) /\
  (forall cpus n children, n <> 0 -> resolve cpus n <> 1 -> default_tree (Call None no_hint n children) = true ->
     procs (top_site cpus) (Call None no_hint n children) = resolve cpus n) /\
  (forall c cpus, nohint_tree c = true -> procs (top_site cpus) c = frontier cpus c).
Proof. exact C15_nesting_holds. Qed.
Print Assumptions C15_nesting.

(* get_nested_backend and configure REGENERATED from the source (Gen/T_nested.v): the nested backend of Threading / Loky /
   Multiprocessing at level l is Threading(l+1) for l = 0 and Sequential(l+1) for l >= 1, with n_jobs None; Sequential hands
   back the caller's active backend; <class>.configure returns the resolved n_jobs or raises
   FallbackToBackend(Sequential at the same level) exactly when it is 1 (Raise (OtherError 1)); Parallel._initialize_backend
   on top of the regenerated configure functions is the model's [configure] used by every nesting theorem *)
Theorem C15_nested_backend_regenerated : forall b a,
  base_get_nested_backend (blevel b) = Ok (nested_backend b, None) /\
  seq_get_nested_backend a = Ok a /\
  (blevel b = 0 -> base_get_nested_backend (blevel b) = Ok ({| bkind := KThr; blevel := 1 |}, None)) /\
  (1 <= blevel b -> base_get_nested_backend (blevel b) = Ok ({| bkind := KSeq; blevel := blevel b + 1 |}, None)).
Proof. exact C15_nested_backend_regenerated_holds. Qed.
Print Assumptions C15_nested_backend_regenerated.

Theorem C15_configure_regenerated : forall k e level n b,
  configure_gen k e level n =
    match eff_gen k e level n with
    | Raise x => Raise x
    | Ok v => match k with KSeq => Ok v | _ => if v =? 1 then Raise (OtherError 1) else Ok v end
    end /\
  initialize_backend_gen b e n = configure b e n.
Proof. exact C15_configure_regenerated_holds. Qed.
Print Assumptions C15_configure_regenerated.

(* the thread pool, the loky executor and the multiprocessing pool are created with exactly the resolved n_jobs
   (first argument of ThreadPool / get_memmapping_executor / MemmappingPool, regenerated) *)
Theorem C15_pool_sized_to_n_jobs : forall n, thr_pool_size n = n /\ loky_pool_size n = n /\ mp_pool_size n = n.
Proof. exact pool_sizes. Qed.
Print Assumptions C15_pool_sized_to_n_jobs.

(* THE NESTING THEOREMS GO THROUGH THE REGENERATED _get_active_backend.  [source_active s h] is _get_active_backend
   (Gen/T_active_backend.v, regenerated from joblib/parallel.py on every run) applied to the configuration joblib installed at
   site s (the nested backend returned by get_nested_backend, n_jobs None) and to the hints h of the nested call;
   [call_outcome_src] composes it with the regenerated configure methods.  They ARE the model's [active_h] / [call_outcome]
   that C15_nesting and C15_nesting_concurrency are about (for every call, whatever prefer/require it passes); and inside a
   worker no hint -- not even prefer='processes' -- replaces the thread-based / sequential backend of the context. *)
Theorem C15_nested_resolution_regenerated :
  (forall s h, source_active s h = active_h s h) /\
  (forall s bsel h n, call_outcome_src s bsel h n = call_outcome s bsel h n) /\
  (forall s b h, s_ctx s = Some b -> kind_shm (bkind b) = true ->
     source_active s h = if hint_valid h then Ok b else Raise ValueError).
Proof. exact nested_resolution_regenerated. Qed.
Print Assumptions C15_nested_resolution_regenerated.

(* NESTING NEVER MULTIPLIES BEYOND TWO LEVELS.  [conc s c]: tasks in flight at once if every pool runs as many tasks as it
   has workers.  For EVERY tree of default-backend calls (induction on the tree):
   - in a sequential context (below two parallel levels) every call runs one task at a time, whatever its n_jobs;
   - in a worker thread of a first-level call: at most the largest resolved n_jobs of the subtree -- no product;
   - from the top level: at most (largest n_jobs)^2 -- a product of at most TWO factors however deep the chain;
   - a parallel top-level call: at most n_jobs(root) x largest n_jobs below it. *)
Theorem C15_nesting_concurrency :
  (forall c s, seq_site s -> default_tree c = true -> conc s c <= 1) /\
  (forall c s, thr_site s -> default_tree c = true -> conc s c <= maxres (e_cpus (s_env s)) c) /\
  (forall c cpus, nohint_tree c = true -> conc (top_site cpus) c <= maxres cpus c * maxres cpus c) /\
  (forall cpus n children, n <> 0 -> resolve cpus n <> 1 -> default_tree (Call None no_hint n children) = true ->
     conc (top_site cpus) (Call None no_hint n children) <= resolve cpus n * max_maxres cpus children).
Proof. exact C15_nesting_concurrency_holds. Qed.
Print Assumptions C15_nesting_concurrency.

(* a chain 4 -> 3 -> 5 -> 7 of default calls runs at most 4 x 3 tasks at once: levels three and four add nothing *)
Example C15_example_concurrency :
  conc (top_site 16) (Call None no_hint 4 [Call None no_hint 3 [Call None no_hint 5 [Call None no_hint 7 []]]]) = 12 /\
  seq_site (worker_site (worker_site (top_site 16) default_backend) {| bkind := KThr; blevel := 1 |}) /\
  thr_site (worker_site (top_site 16) default_backend).
Proof.
  split; [vm_compute; reflexivity|]. split.
  - eexists; split; [reflexivity|reflexivity].
  - eexists; split; [reflexivity|]. cbn. split; [reflexivity|lia].
Qed.
Print Assumptions C15_example_concurrency.

(* THE REUSABLE LOKY EXECUTOR (Model/C15Executor.v).  The three decisions are REGENERATED from the source
   (Gen/T_executor.v): _resize does nothing only when the requested size equals the current one; a new executor is built
   iff the current one is broken, shut down or the arguments changed; joblib asks for reuse iff the executor arguments are
   the same as last time. *)
Theorem C15_executor_decisions_regenerated : forall n cur b sd r an ae,
  resize_noop n cur = resize_noop_model n cur /\ (resize_noop n cur = true -> n = cur) /\
  needs_new b sd r = needs_new_model b sd r /\ args_reuse an ae = an || ae.
Proof. exact executor_decisions. Qed.
Print Assumptions C15_executor_decisions_regenerated.

(* WHATEVER happened before -- any sequence of loky calls of any sizes, argument changes, task submissions, idle time-outs,
   breakage, shutdown (induction over the history) -- the executor handed to a call whose n_jobs resolved to n has
   _max_workers = n, at most n live workers, and exactly n once the tasks are submitted: never the size of an earlier,
   larger call. *)
Theorem C15_executor_reuse_bounded : forall ops n args s' e reused,
  get_executor n args (erun ops init_state) = Ok (s', e, reused) ->
  x_max e = n /\ 0 <= x_alive e <= n /\
  exists e', s_exec (estep s' OSubmit) = Some e' /\ x_max e' = n /\ x_alive e' = n /\ x_id e' = x_id e.
Proof. exact reuse_bounded. Qed.
Print Assumptions C15_executor_reuse_bounded.

(* the machine builds a replacement executor (current one broken, shut down, or other arguments) with the REQUESTED size
   ([fresh (s_next s) n] in get_executor); regenerated source fact: get_reusable_executor never reassigns max_workers in that
   branch -- a call after a worker death or an aborted call does not inherit the dead executor's size *)
Theorem C15_executor_replacement_size : forall requested dead,
  replacement_size_is_requested = true /\ replacement_size replacement_size_is_requested requested dead = requested.
Proof. exact replacement_is_requested. Qed.
Print Assumptions C15_executor_replacement_size.

(* a resolved n_jobs (>= 1, C15_at_least_one) is never refused, and the executor object is kept exactly when it is healthy
   and the arguments did not change *)
Theorem C15_executor_reuse_iff : forall n args s e0, 1 <= n -> s_exec s = Some e0 ->
  exists s' e reused, get_executor n args s = Ok (s', e, reused) /\
  (reused = true <-> (x_broken e0 = false /\ x_shutdown e0 = false /\ (s_args s = None \/ s_args s = Some args))).
Proof. exact reuse_iff. Qed.
Print Assumptions C15_executor_reuse_iff.

Example C15_example_executor :
  let s := erun [OGet 4 7; OSubmit; OGet 2 7; OSubmit; OTimeout 1; OGet 3 7; OSubmit; OGet 3 8] init_state in
  option_map (fun e => (x_id e, x_max e, x_alive e)) (s_exec s) = Some (1, 3, 0) /\
  option_map (fun e => (x_id e, x_max e, x_alive e))
             (s_exec (erun [OGet 4 7; OSubmit; OGet 2 7; OSubmit] init_state)) = Some (0, 2, 2).
Proof. vm_compute. split; reflexivity. Qed.
Print Assumptions C15_example_executor.

(* non-vacuity: hypotheses of the implications above are satisfiable, on non-trivial data *)
Example C15_example_env : unguarded {| e_mp_none := false; e_cpus := 16; e_daemon := false; e_depth := 0; e_main := true |} 0.
Proof. unfold unguarded; cbn; repeat split; auto; lia. Qed.
Print Assumptions C15_example_env.

Example C15_example_resolve :
  let e := {| e_mp_none := false; e_cpus := 16; e_daemon := false; e_depth := 0; e_main := true |} in
  eff_gen KLoky e 0 (-3) = Ok 14 /\ eff_gen KThr e 0 (-40) = Ok 1 /\ eff_gen KMp e 0 5 = Ok 5 /\
  cpu_count (Some 16) (Some 6) None (Some 0) None false = Ok 1 /\ cpu_count (Some 16) (Some 6) (Some 3) (Some 1000) (Some 8) false = Ok 3.
Proof. vm_compute. repeat split; reflexivity. Qed.
Print Assumptions C15_example_resolve.

(* a depth-3 tree of default calls below a 4-worker top-level call: 4 processes, nothing more;
   the same tree with an explicitly requested loky backend inside a worker's main thread does multiply *)
Example C15_example_tree :
  let leaf := Call None no_hint 2 [] in
  let t := Call None no_hint 4 [Call None no_hint 3 [Call None no_hint 2 [leaf; leaf]; leaf]; Call None no_hint (-1) [leaf]] in
  default_tree t = true /\ worker_inv (worker_site (top_site 16) default_backend) /\
  procs (top_site 16) t = 4 /\
  procs (top_site 16) (Call None no_hint 4 [Call (Some KLoky) no_hint 3 []]) = 7.
Proof.
  split; [reflexivity|]. split; [|split; vm_compute; reflexivity].
  exists {| bkind := KThr; blevel := 1 |}. cbn. split; [reflexivity|]. split; [left; reflexivity|lia].
Qed.
Print Assumptions C15_example_tree.
