(* C18 -- reduce_size enforces every limit by evicting the minimal LRU prefix.

   Every statement is about [get_items_to_delete], the Gallina function REGENERATED from
   joblib/_store_backends.py (StoreBackendMixin._get_items_to_delete) on every run.
   Store items are (path, size, last_access); [sort_by iatime] is Python's stable
   list.sort(key=attrgetter('last_access')).  Hypotheses: sizes are non-negative
   (os.path.getsize) and, for C18_limits, the byte and item limits are non-negative
   (with a negative limit no eviction can satisfy it; the code then evicts everything).

   This file contains only the property theorems; proofs are in Proofs/ReduceSize.v. *)
From Coq Require Import ZArith List Sorting.Permutation.
Require Import JV.Base.PyPrelude JV.Base.SortBy JV.Model.ReduceSize JV.Gen.T_items_to_delete
               JV.Proofs.ReduceSize.
Import ListNotations.
Open Scope Z_scope.

(* the evicted items are a prefix of the store sorted (stably) by last access *)
Theorem C18_prefix : forall now l bl il al del,
  nonneg_sizes l -> get_items_to_delete now l bl il al = Ok del ->
  exists rest, sort_by iatime l = del ++ rest.
Proof.
  intros now l bl il al del Hnn H. rewrite (translated_ok_select _ _ _ _ _ _ H).
  exact (select_is_prefix now l bl il al Hnn).
Qed.
Print Assumptions C18_prefix.

(* what remains satisfies every limit that was given *)
Theorem C18_limits : forall now l bl il al del rest,
  nonneg_sizes l ->
  (forall b, bl = Some b -> 0 <= b) -> (forall n, il = Some n -> 0 <= n) ->
  get_items_to_delete now l bl il al = Ok del -> sort_by iatime l = del ++ rest ->
  limits_ok now bl il al rest.
Proof.
  intros now l bl il al del rest Hnn Hb Hn H Heq. rewrite (translated_ok_select _ _ _ _ _ _ H) in Heq.
  exact (select_meets_limits now l bl il al rest Hnn Hb Hn Heq).
Qed.
Print Assumptions C18_limits.

(* nothing is evicted that did not have to be: no strictly shorter LRU prefix meets the limits *)
Theorem C18_minimal : forall now l bl il al del pre' rest',
  nonneg_sizes l -> get_items_to_delete now l bl il al = Ok del ->
  sort_by iatime l = pre' ++ rest' -> (length pre' < length del)%nat ->
  ~ limits_ok now bl il al rest'.
Proof.
  intros now l bl il al del pre' rest' Hnn H Heq Hlt. rewrite (translated_ok_select _ _ _ _ _ _ H) in Hlt.
  exact (select_minimal now l bl il al pre' rest' Hnn Heq Hlt).
Qed.
Print Assumptions C18_minimal.

(* the method computes exactly the declarative "shortest prefix meeting all limits" *)
Theorem C18_is_spec : forall now l bl il al del,
  nonneg_sizes l -> get_items_to_delete now l bl il al = Ok del -> del = spec_select now l bl il al.
Proof.
  intros now l bl il al del Hnn H. rewrite (translated_ok_select _ _ _ _ _ _ H).
  exact (select_eq_spec now l bl il al Hnn).
Qed.
Print Assumptions C18_is_spec.

(* strictly least-recently-used first: everything evicted is at most as recent as everything kept *)
Theorem C18_lru : forall now l bl il al del rest x y,
  get_items_to_delete now l bl il al = Ok del -> sort_by iatime l = del ++ rest ->
  In x del -> In y rest -> iatime x <= iatime y.
Proof.
  intros now l bl il al del rest x y H Heq Hx Hy. rewrite (translated_ok_select _ _ _ _ _ _ H) in *.
  exact (select_lru now l bl il al rest x y Heq Hx Hy).
Qed.
Print Assumptions C18_lru.

(* the order the prefix is taken from: a stable sort of the store (a permutation, ascending in
   last access, equal access times in store order) *)
Theorem C18_sort_is_stable : forall (l : list item) k,
  Permutation (sort_by iatime l) l /\ sorted_by iatime (sort_by iatime l) /\
  filter (keyis iatime k) (sort_by iatime l) = filter (keyis iatime k) l.
Proof.
  intros l k. split; [apply sort_by_perm | split; [apply sort_by_sorted | apply sort_by_stable]].
Qed.
Print Assumptions C18_sort_is_stable.

(* totality: the only exception is ValueError for a negative age limit on a non-empty store *)
Theorem C18_outcome : forall now l bl il al,
  (exists del, get_items_to_delete now l bl il al = Ok del) \/
  (get_items_to_delete now l bl il al = Raise ValueError /\ l <> [] /\ exists a, al = Some a /\ a < 0).
Proof. exact translated_outcome. Qed.
Print Assumptions C18_outcome.

(* the translated source equals the hand-written model used by the correspondence check *)
Theorem C18_translation_matches_model : forall now l bl il al,
  get_items_to_delete now l bl il al = items_to_delete_model now l bl il al.
Proof. exact translated_eq_model. Qed.
Print Assumptions C18_translation_matches_model.

(* non-vacuity: a concrete store with ties, a zero-size entry and all three limits active *)
Example C18_example :
  let l := [ {| ipath := 1; isize := 10; iatime := 5 |}; {| ipath := 2; isize := 0; iatime := 3 |};
             {| ipath := 3; isize := 7; iatime := 5 |}; {| ipath := 4; isize := 4; iatime := 9 |} ] in
  nonneg_sizes l /\
  get_items_to_delete 10 l (Some 11) (Some 3) (Some 6)
    = Ok [ {| ipath := 2; isize := 0; iatime := 3 |}; {| ipath := 1; isize := 10; iatime := 5 |} ].
Proof. split; [repeat constructor; discriminate | vm_compute; reflexivity]. Qed.
Print Assumptions C18_example.
