(* C08 -- joblib.hash is a deterministic, order-insensitive, type-discriminating digest.

   Model: Model/HashEnc.v ([enc_top md5 v] = the bytes Hasher.dump feeds to md5/sha1, protocol-3
   opcode stream, byte-exact; [None] = the call raises).  md5 is a parameter of every theorem: it is
   only used by the mixed-kind fallback (sorting joblib digests of the keys).
   Universe of the positive theorems: [good v] -- at every depth, the keys of a dict and the elements
   of a set / frozenset are scalars, str, bytes or tuples of these ([plain]) on which Python's < is a
   strict total order and == separates distinct keys ([key_order_ok]; proved for distinct ints, distinct
   str, distinct bytes in the C08_universe theorems).  [veq] = equality up to the iteration order of dicts, sets
   and frozensets at any depth (iteration order is what insertion order and PYTHONHASHSEED change).

   NOT covered by the positive theorems (see design.d/C08.md): mixed-kind keys (digest fallback; the
   injectivity there would need md5 collision-freeness and is refuted as stated by F13), keys that are
   or contain frozensets (F12), NaN keys, aliased sub-objects.

   This file contains only the property theorems; proofs are in Proofs/HashEnc*.v. *)
From Coq Require Import ZArith List Bool Sorting.Permutation.
Require Import JV.Base.C08_MD5 JV.Model.HashEnc JV.Proofs.HashEncDefs JV.Proofs.HashEncOrder
               JV.Proofs.HashEncKeys JV.Proofs.HashEncExamples JV.Proofs.HashEncInj
               JV.Model.HashEncX JV.Proofs.HashEncXFacts JV.Proofs.HashEncXNp JV.Proofs.HashEncXTree
               JV.Gen.C08_Constants JV.Proofs.HashEncGenTie.
Import ListNotations.
Open Scope Z_scope.

(* ---------------------------------------------------------------- determinism / order-insensitivity *)

(* the stream does not depend on the iteration order of any dict / set / frozenset, at any depth,
   starting from any memo state *)
Theorem C08_order : forall md5 m a b, good a -> veq a b -> enc_ops md5 m a = enc_ops md5 m b.
Proof. intros md5 m a b G H. exact (enc_order md5 a b G H m). Qed.
Print Assumptions C08_order.

Theorem C08_order_top : forall md5 a b, good a -> veq a b -> enc_top md5 a = enc_top md5 b.
Proof. exact enc_top_order. Qed.
Print Assumptions C08_order_top.

(* hence the digest, for md5 as for any other function applied to the stream (sha1) *)
Theorem C08_order_digest : forall md5 (H : list byte -> list byte) a b, good a -> veq a b ->
  option_map H (digest_input md5 a) = option_map H (digest_input md5 b).
Proof. intros md5 H a b G E. unfold digest_input. rewrite (enc_top_order md5 a b G E). reflexivity. Qed.
Print Assumptions C08_order_digest.

Theorem C08_order_dict : forall md5 items items', good (VDict items) -> Permutation items items' ->
  enc_top md5 (VDict items) = enc_top md5 (VDict items').
Proof. intros md5 items items' G P. exact (enc_top_order md5 _ _ G (veq_dict_perm _ _ P)). Qed.
Print Assumptions C08_order_dict.

Theorem C08_order_set : forall md5 l l', good (VSet l) -> Permutation l l' ->
  enc_top md5 (VSet l) = enc_top md5 (VSet l').
Proof. intros md5 l l' G P. exact (enc_top_order md5 _ _ G (veq_set_perm _ _ P)). Qed.
Print Assumptions C08_order_set.

Theorem C08_order_frozenset : forall md5 l l', good (VFrozenSet l) -> Permutation l l' ->
  enc_top md5 (VFrozenSet l) = enc_top md5 (VFrozenSet l').
Proof. intros md5 l l' G P. exact (enc_top_order md5 _ _ G (veq_fset_perm _ _ P)). Qed.
Print Assumptions C08_order_frozenset.

(* the universe is not empty: distinct ints / str / bytes are admissible keys *)
Theorem C08_universe_int_keys : forall zs, NoDup zs -> keys_ok (map VInt zs).
Proof. exact ints_keys_ok. Qed.
Print Assumptions C08_universe_int_keys.
Theorem C08_universe_str_keys : forall l, NoDup l -> keys_ok (map VStr l).
Proof. exact strs_keys_ok. Qed.
Print Assumptions C08_universe_str_keys.
Theorem C08_universe_bytes_keys : forall l, NoDup l -> keys_ok (map VBytes l).
Proof. exact bytes_keys_ok. Qed.
Print Assumptions C08_universe_bytes_keys.

(* non-vacuity: a nested value of the universe, a different iteration order of it, one stream *)
Example C08_order_example : good ex_v /\ veq ex_v ex_v' /\ ex_v <> ex_v' /\
  forall md5, enc_top md5 ex_v = enc_top md5 ex_v' /\ enc_top md5 ex_v <> None.
Proof. exact (conj ex_v_good (conj ex_v_veq (conj ex_v_neq ex_v_stream))). Qed.
Print Assumptions C08_order_example.

(* ---------------------------------------------------------------- type discrimination / injectivity *)

(* injectivity up to iteration order: on the universe, equal streams come only from values that
   differ by the iteration order of their dicts / sets / frozensets.  [fits] = every length, int and
   memo index fits the field the protocol gives it (< 2^32 bytes per str/bytes/int, < 2^32 containers,
   float patterns < 2^64).  No hypothesis on md5. *)
Theorem C08_inj_sorted : forall md5 a b s, good a -> good b -> fits md5 a -> fits md5 b ->
  enc_top md5 a = Some s -> enc_top md5 b = Some s -> veq a b.
Proof. exact enc_top_inj. Qed.
Print Assumptions C08_inj_sorted.

(* non-vacuity of the hypotheses of C08_inj_sorted *)
Example C08_inj_example : good inj_ex /\ forall md5, fits md5 inj_ex.
Proof. exact inj_example. Qed.
Print Assumptions C08_inj_example.

(* values of the universe always hash (no exception) *)
Theorem C08_total : forall md5 a, good a -> enc_top md5 a <> None.
Proof. exact enc_top_total. Qed.
Print Assumptions C08_total.

Theorem C08_types_scalars : forall md5,
  enc_top md5 (VInt 1) <> enc_top md5 (VFloat float_one) /\
  enc_top md5 (VInt 1) <> enc_top md5 (VBool true) /\
  enc_top md5 (VFloat float_one) <> enc_top md5 (VBool true) /\
  enc_top md5 (VInt 0) <> enc_top md5 (VFloat 0) /\
  enc_top md5 (VInt 0) <> enc_top md5 (VBool false) /\
  enc_top md5 (VFloat 0) <> enc_top md5 (VFloat 9223372036854775808) /\
  enc_top md5 (VInt 0) <> enc_top md5 VNone.
Proof. exact types_1_1f_true. Qed.
Print Assumptions C08_types_scalars.

Theorem C08_types_str_bytes : forall md5 s, enc_top md5 (VStr s) <> enc_top md5 (VBytes s).
Proof. exact types_str_bytes. Qed.
Print Assumptions C08_types_str_bytes.

Theorem C08_types_empties : forall md5,
  let e := enc_top md5 in
  e (VStr []) <> e (VBytes []) /\ e (VBytes []) <> e (VTuple []) /\ e (VTuple []) <> e (VList []) /\
  e (VList []) <> e (VDict []) /\ e (VDict []) <> e (VSet []) /\ e (VSet []) <> e (VFrozenSet []) /\
  e (VStr []) <> e (VTuple []) /\ e (VStr []) <> e VNone.
Proof. exact types_empties. Qed.
Print Assumptions C08_types_empties.

(* set vs frozenset with the same elements, for every element list (no hypothesis) *)
Theorem C08_types_set_frozenset : forall md5 l s,
  enc_top md5 (VSet l) = Some s -> enc_top md5 (VFrozenSet l) <> Some s.
Proof. exact types_set_frozenset. Qed.
Print Assumptions C08_types_set_frozenset.

(* list vs tuple with the same items; a value never collides with one of another kind *)
Theorem C08_types_list_tuple : forall md5 l s, good (VList l) -> fits md5 (VList l) -> fits md5 (VTuple l) ->
  enc_top md5 (VList l) = Some s -> enc_top md5 (VTuple l) <> Some s.
Proof. exact types_list_tuple. Qed.
Print Assumptions C08_types_list_tuple.

Theorem C08_types_kind : forall md5 a b s, good a -> good b -> fits md5 a -> fits md5 b ->
  enc_top md5 a = Some s -> enc_top md5 b = Some s -> same_kind a b.
Proof. exact enc_top_same_kind. Qed.
Print Assumptions C08_types_kind.

(* ---------------------------------------------------------------- refutations (known findings) *)

(* F12.  Full statement, FALSE of the faithful model and of the code:
     forall md5 a b, veq a b -> enc_top md5 a = enc_top md5 b       (no [good] hypothesis)
   A set (or the keys of a dict) of frozensets is "sorted" by the subset relation, which is not total and
   raises nothing: {frozenset({0}), frozenset({1,2})} in its two iteration orders gives two streams. *)
Theorem C08_F12_partial_order_refuted : exists l l', Permutation l l' /\
  (forall md5, enc_top md5 (VSet l) <> enc_top md5 (VSet l')) /\
  (forall md5, enc_top md5 (VFrozenSet l) <> enc_top md5 (VFrozenSet l')) /\
  (forall md5, enc_top md5 (VDict (map (fun k => (k, VNone)) l)) <> enc_top md5 (VDict (map (fun k => (k, VNone)) l'))) /\
  (forall md5, enc_top md5 (VSet l) <> None).
Proof. exists f12_l, f12_l'. exact f12_witness. Qed.
Print Assumptions C08_F12_partial_order_refuted.

(* the witness is outside the universe exactly because subset is not total on it *)
Theorem C08_F12_outside_universe : ~ key_order_ok f12_l.
Proof. exact f12_not_ordered. Qed.
Print Assumptions C08_F12_outside_universe.

(* F13.  Full statement, FALSE: forall a b, enc_top md5 a = enc_top md5 b <> None -> veq a b.
   In the mixed-kind fallback the keys are replaced by their digests: {1:'x','a':'y'} and the dict
   whose keys are the two digest strings (a member of the universe) write the same stream. *)
Theorem C08_F13_masquerade_refuted : exists a b, a <> b /\
  enc_top md5_hex a = enc_top md5_hex b /\ enc_top md5_hex a <> None /\ good b.
Proof.
  exists f13_a, f13_b.
  exact (conj (proj1 f13_witness) (conj (proj1 (proj2 f13_witness))
        (conj (proj1 (proj2 (proj2 f13_witness))) (proj1 (proj2 (proj2 (proj2 f13_witness))))))).
Qed.
Print Assumptions C08_F13_masquerade_refuted.

(* ================================================================ extension (Model/HashEncX.v)
   identity / Pickler.memo, save_global, NumpyHasher.  [enc_x_top md5 coerce v] = the list of chunks
   handed to self._hash.update, in order; the digest is taken over their concatenation [digest_input_x]. *)

(* the hand-copied constants of the models equal the ones regenerated from joblib/hashing.py and the
   implementation's pickle module on every run (opcode bytes, protocol, _BATCHSIZE, class and attribute
   names, tags, memoize's exempted types, the dispatch registrations, the default algorithm) *)
Theorem C08_constants_tie :
  map (fun o => hd 0 (ser o)) model_ops = g_opcodes /\
  ser OProto = [g_PROTO; g_protocol] /\
  hd 0 (nser (NGlobal [])) = g_GLOBAL /\ nser NPop = [g_POP] /\ nser NPopMark = [g_POP_MARK] /\
  Z.of_nat BATCHSIZE = g_batchsize /\
  name_module ++ name_set = g_set_global /\ name_module ++ name_fset = g_fset_global /\
  g_set_global = g_live_set_global /\ g_fset_global = g_live_fset_global /\
  name_sequence = g_sequence_attr /\ tag_hashed = g_tag_hashed /\ tag_dtype = g_tag_dtype /\
  g_memoize_skips = [[98; 121; 116; 101; 115]; [115; 116; 114]] /\
  map snd g_dispatch = [[115; 97; 118; 101; 95; 115; 101; 116]; [115; 97; 118; 101; 95; 102; 114; 111; 122; 101; 110; 115; 101; 116]] /\
  g_default_hash_name = [109; 100; 53] /\ length g_valid_hash_names = 2%nat /\
  g_pickler_is_pure_python = true.
Proof. exact gen_tie. Qed.
Print Assumptions C08_constants_tie.

(* what identity does to the stream, exactly: an object already in the memo is written as ONE
   BINGET / LONG_BINGET of its index and nothing of its content is looked at *)
Theorem C08_memo_hit_tuple : forall md5 c id l m i, lookup_id id (xobjs m) = Some i ->
  enc_x md5 c (XTuple id l) m = Some ([NO (get_op i)], [], m).
Proof. exact hit_tuple. Qed.
Print Assumptions C08_memo_hit_tuple.
Theorem C08_memo_hit_list : forall md5 c id l m i, lookup_id id (xobjs m) = Some i ->
  enc_x md5 c (XList id l) m = Some ([NO (get_op i)], [], m).
Proof. exact hit_list. Qed.
Print Assumptions C08_memo_hit_list.
Theorem C08_memo_hit_dict : forall md5 c id l m i, lookup_id id (xobjs m) = Some i ->
  enc_x md5 c (XDict id l) m = Some ([NO (get_op i)], [], m).
Proof. exact hit_dict. Qed.
Print Assumptions C08_memo_hit_dict.
Theorem C08_memo_hit_global : forall md5 c n m i, lookup_name n (xglobals m) = Some i ->
  enc_x md5 c (XGlobal n) m = Some ([NO (get_op i)], [], m).
Proof. exact hit_global. Qed.
Print Assumptions C08_memo_hit_global.

(* ... and without sharing (pairwise distinct, fresh object ids) the identity-aware model writes exactly the
   stream of the tree model, so C08_order / C08_inj_sorted apply.  Partial: tuple / list / leaf nodes; dict
   nodes of the extension are tied to the code by the byte correspondence only. *)
Theorem C08_x_tree_partial : forall md5 c v, dictfree v -> forall t, erase v = Some t -> NoDup (xids v) ->
  forall m, fresh (xids v) (xobjs m) ->
  exists objs', grows (xobjs m) objs' (xids v) /\
    enc_x md5 c v m = match enc md5 t (xm m) with
                      | Some (ops, m') => Some (map NO ops, [], mkx m' objs' (xglobals m))
                      | None => None
                      end.
Proof. exact x_tree. Qed.
Print Assumptions C08_x_tree_partial.

(* F17.  Full statement, FALSE: forall x x', erase x = erase x' -> enc_x_top x = enc_x_top x'.
   t = (1, 2): [t, t] and [t, (1, 2)] denote the same value and get two streams (tuples are immutable,
   so this is inside the property's universe; Hasher.memoize exempts only str and bytes). *)
Theorem C08_F17_shared_tuple_refuted : exists x x', erase x = erase x' /\ erase x <> None /\
  forall md5 c, enc_x_top md5 c x <> enc_x_top md5 c x' /\ enc_x_top md5 c x <> None /\ enc_x_top md5 c x' <> None.
Proof. exists f17_shared, f17_distinct. exact f17_witness. Qed.
Print Assumptions C08_F17_shared_tuple_refuted.

Theorem C08_F17_unshared_is_tree : forall md5 c,
  enc_x_top md5 c f17_distinct =
  option_map (fun b => [b]) (enc_top md5 (VList [VTuple [VInt 1; VInt 2]; VTuple [VInt 1; VInt 2]])).
Proof. exact f17_distinct_is_tree. Qed.
Print Assumptions C08_F17_unshared_is_tree.

(* NumpyHasher: the chunk sequence of an ndarray determines class (after coerce_mmap), dtype pickle, shape,
   strides and the buffer handed to the hash.  [name_ok] = b"module\nqualname\n"; [desc_fits] = the ints of
   shape / strides fit their opcode fields. *)
Theorem C08_np_chunks_inj : forall md5 c a b chunks,
  name_ok (eff_klass c a) -> name_ok (eff_klass c b) -> desc_fits md5 a -> desc_fits md5 b ->
  enc_x_top md5 c (XArr a) = Some chunks -> enc_x_top md5 c (XArr b) = Some chunks ->
  eff_klass c a = eff_klass c b /\ a_dtype_pickle a = a_dtype_pickle b /\
  a_shape a = a_shape b /\ a_strides a = a_strides b /\ fed_bytes a = fed_bytes b.
Proof. exact np_chunks_inj. Qed.
Print Assumptions C08_np_chunks_inj.

Example C08_np_example : forall md5 c, name_ok (eff_klass c np_ex) /\ desc_fits md5 np_ex /\
  enc_x_top md5 c (XArr np_ex) <> None /\
  fed_bytes np_ex = [0;0;0;0; 3;0;0;0; 1;0;0;0; 4;0;0;0; 2;0;0;0; 5;0;0;0].
Proof. exact np_example. Qed.
Print Assumptions C08_np_example.

(* coerce_mmap: a memmap is written exactly like the ndarray with the same buffer; ndarrays ignore the flag *)
Theorem C08_np_coerce_mmap : forall md5 a m, a_is_memmap a = true ->
  enc_x md5 true (XArr a) m = enc_x md5 true (XArr (as_ndarray a)) m.
Proof. exact coerce_memmap. Qed.
Print Assumptions C08_np_coerce_mmap.
Theorem C08_np_coerce_irrelevant : forall md5 a m, a_is_memmap a = false ->
  enc_x md5 true (XArr a) m = enc_x md5 false (XArr a) m.
Proof. exact coerce_irrelevant. Qed.
Print Assumptions C08_np_coerce_irrelevant.

(* F18.  Full statement, FALSE: the concatenation of the chunks (what the digest is taken over) determines
   the value.  The raw bytes of an array and "_HASHED_DTYPE" + pickle.dumps(dtype) are fed unframed IN FRONT of
   the pickle stream: the uint8 array [0x80, 3, ord('C'), 126] and a 126-byte bytes object have one digest input. *)
Theorem C08_F18_unframed_array_refuted : forall md5 c,
  digest_input_x md5 c f18_array = enc_top md5 (VBytes f18_payload) /\ digest_input_x md5 c f18_array <> None /\
  zlen f18_payload = 126.
Proof. exact f18_witness. Qed.
Print Assumptions C08_F18_unframed_array_refuted.
