(* C20 -- tracked temporary resources are deleted exactly when their last user is gone.

   Model: Model/ResTracker.v, the command loop of loky's resource_tracker.main(fd):
     [step w cf r l]  one iteration on line [l] from registry [r]: new registry, clean-up calls
                      made (deletions), what sys.excepthook printed (if anything);
     [run]/[trace]    the loop over all lines;  [finish]  the finally block at EOF;
     [count ls k]     the specification: reference count of key k = (type, name) after the
                      lines ls -- registers minus maybe-unlinks since the last reset.
   External and therefore universally quantified parameters of every theorem:
     [cf d] "the clean-up function raises on d" (OS),  [w] "warnings.warn raises" (-W error).
   All statements hold for ALL lines / line sequences (arbitrary bytes), proved by induction.

   This file contains only the property theorems; proofs are in Proofs/ResTracker*.v. *)
From Coq Require Import ZArith List Bool String.
Require Import JV.Model.ResTracker JV.Proofs.ResTracker JV.Proofs.ResTrackerSpec.
Require Import JV.Model.TempManager JV.Proofs.TempManager JV.Proofs.ResTrackerSend.
Require JV.Model.TrackerStartup JV.Proofs.TrackerStartup.
Module TS := JV.Model.TrackerStartup.
Module TSP := JV.Proofs.TrackerStartup.
Import ListNotations.
Open Scope Z_scope.

(* the registry IS the reference count of the specification, after any command sequence:
   a key is present iff its count is positive, and then stores exactly the count *)
Theorem C20_registry_is_count : forall w cf ls k,
  match lookup (run w cf init ls) k with
  | None => count ls k = 0
  | Some c => count ls k = c /\ 1 <= c
  end.
Proof.
  intros w cf ls k. pose proof (run_init_refc w cf ls k) as H. unfold refc in H.
  destruct (lookup (run w cf init ls) k) eqn:E; [|auto].
  split; [auto|]. eapply wf_lookup_pos; [apply run_wf, wf_init | exact E].
Qed.
Print Assumptions C20_registry_is_count.

(* deleted at step |ls| iff that step is a MAYBE_UNLINK of the key that brings its count from 1
   to 0; a step deletes at most one key *)
Theorem C20_refcount : forall w cf ls l k,
  (In k (o_del (step w cf (run w cf init ls) l)) <->
   classify l = QMaybeUnlink (fst k) (snd k) /\ count ls k = 1) /\
  (o_del (step w cf (run w cf init ls) l) = [] \/ o_del (step w cf (run w cf init ls) l) = [k] \/
   ~ In k (o_del (step w cf (run w cf init ls) l))).
Proof.
  intros w cf ls l k. split; [exact (loop_delete_iff w cf ls l k)|].
  destruct (loop_delete_at_most_one w cf (run w cf init ls) l) as [H|[k' H]]; [auto|].
  rewrite H. destruct (key_eqb k' k) eqn:E.
  - apply key_eqb_true_iff in E. subst. auto.
  - apply key_eqb_false_iff in E. right. right. intros [A|[]]. auto.
Qed.
Print Assumptions C20_refcount.

(* never while another registered user remains: no deletion when the count before the step
   exceeds 1, and after a step that deletes k the count of k is 0 *)
Theorem C20_not_early : forall w cf ls l k,
  (1 < count ls k -> ~ In k (o_del (step w cf (run w cf init ls) l))) /\
  (In k (o_del (step w cf (run w cf init ls) l)) -> count (ls ++ [l]) k = 0).
Proof.
  intros w cf ls l k. split.
  - intros H D. apply loop_delete_iff in D. destruct D as [_ D]. rewrite D in H. inversion H.
  - intros D. apply loop_delete_iff in D. destruct D as [C D]. rewrite count_snoc, C, D.
    destruct k as [t n]. cbn [cnt_step fst snd]. rewrite key_eqb_refl. reflexivity.
Qed.
Print Assumptions C20_not_early.

(* every clean-up call, in the loop (from ANY registry) or at EOF, names a key that is in the
   registry at that moment; EOF calls are a prefix of the pending list *)
Theorem C20_only_registered : forall w cf r l k,
  (In k (o_del (step w cf r l)) -> lookup r k <> None) /\
  (In k (fst (finish w cf r)) -> lookup r k <> None).
Proof.
  intros w cf r l k. split; [exact (step_del_registered w cf r l k)|].
  intros H. apply in_pending. destruct (cleanup_all_prefix w cf (pending r)) as [rest E].
  unfold finish in H. rewrite E. apply in_or_app. left. exact H.
Qed.
Print Assumptions C20_only_registered.

(* the loop is never stuck and never stops early: one trace entry per line; entry i is the step
   from the registry reached by the first i lines *)
Theorem C20_total_loop : forall w cf ls,
  List.length (trace w cf init ls) = List.length ls /\
  forall pre l post, ls = pre ++ l :: post ->
    nth_error (trace w cf init ls) (List.length pre) =
    Some (o_del (step w cf (run w cf init pre) l), o_err (step w cf (run w cf init pre) l)).
Proof.
  intros w cf ls. split; [apply trace_length|]. intros pre l post ->. apply trace_nth.
Qed.
Print Assumptions C20_total_loop.

(* malformed lines (undecodable, unknown resource type, unknown command) and unbalanced
   requests (UNREGISTER / MAYBE_UNLINK of a name not in the registry) are logged and leave
   the registry unchanged and the file system alone -- from ANY registry *)
Theorem C20_total : forall w cf r l,
  (malformed (classify l) ->
     o_reg (step w cf r l) = r /\ o_del (step w cf r l) = [] /\ o_err (step w cf r l) <> None) /\
  (forall t n, classify l = QMaybeUnlink t n \/ classify l = QUnregister t n -> lookup r (t, n) = None ->
     o_reg (step w cf r l) = r /\ o_del (step w cf r l) = [] /\ o_err (step w cf r l) = Some EKey) /\
  (forall e, o_err (step w cf r l) = Some e -> e <> EWarning ->
     o_reg (step w cf r l) = r /\ o_del (step w cf r l) = []).
Proof.
  intros w cf r l. split; [exact (step_malformed w cf r l)|]. split.
  - intros t n. exact (step_unbalanced w cf r l t n).
  - intros e. exact (step_error_unchanged w cf r l e).
Qed.
Print Assumptions C20_total.

(* a raising clean-up function (and the warning filter) changes neither registry nor deletions *)
Theorem C20_cleanup_failure_irrelevant : forall w cf w' cf' r l ls,
  o_reg (step w cf r l) = o_reg (step w' cf' r l) /\ o_del (step w cf r l) = o_del (step w' cf' r l) /\
  run w cf r ls = run w' cf' r ls.
Proof.
  intros. destruct (step_env_irrelevant w cf w' cf' r l). repeat split; auto. apply run_env_irrelevant.
Qed.
Print Assumptions C20_cleanup_failure_irrelevant.

(* EOF: what is pending is exactly the keys with a positive count, each once, every folder
   after every non-folder; unless warnings are errors AND a clean-up call raises, finish
   calls the clean-up function on exactly that list and main() returns normally *)
Theorem C20_eof : forall w cf ls,
  let r := run w cf init ls in
  (forall k, In k (pending r) <-> 0 < count ls k) /\
  NoDup (pending r) /\
  (exists a b, pending r = a ++ b /\ Forall (fun d => is_folder d = false) a /\
               Forall (fun d => is_folder d = true) b) /\
  (w = false \/ (forall d, In d (pending r) -> cf d = false) -> finish w cf r = (pending r, false)).
Proof.
  intros w cf ls r. split; [intros k; apply pending_iff_count|]. split; [apply pending_nodup, run_wf, wf_init|].
  split; [apply pending_folders_last|]. intros H. apply cleanup_all_complete. exact H.
Qed.
Print Assumptions C20_eof.

(* FULL STATEMENT (false): forall w cf ls, fst (finish w cf (run w cf init ls)) = pending (...).
   Refuted when the tracker runs with warnings turned into errors (python -W error, inherited
   through _args_from_interpreter_flags): the first clean-up call that raises at EOF makes the
   unprotected warnings.warn raise, the finally block is left and everything after it leaks. *)
Open Scope string_scope.
Definition C20_werror_witness : list line :=
  [bs "REGISTER:d0:folder"; bs "REGISTER:d1:folder"; bs "REGISTER:d2:folder"].
Definition C20_werror_fails (d : deletion) : bool := key_eqb d (Folder, bs "d0").

Theorem C20_eof_refuted_werror :
  exists ls cf k, 0 < count ls k /\
    ~ In k (fst (finish true cf (run true cf init ls))) /\ snd (finish true cf (run true cf init ls)) = true.
Proof.
  exists C20_werror_witness, C20_werror_fails, (Folder, bs "d1").
  split; [vm_compute; reflexivity|]. split; [|vm_compute; reflexivity].
  vm_compute. intros [H|[]]. discriminate H.
Qed.
Print Assumptions C20_eof_refuted_werror.
Close Scope string_scope.

(* the parser: command = what precedes the first colon, type = what follows the last, name =
   everything in between, colons included; fewer than two colons give the empty name *)
Theorem C20_parser : forall l,
  (parse l = PDecodeError /\ is_ascii (strip l) = false) \/
  (exists c, parse l = PFields c [] c /\ strip l = c /\ no_colon c) \/
  (exists c t, parse l = PFields c [] t /\ strip l = c ++ 58 :: t /\ no_colon c /\ no_colon t) \/
  (exists c n t, parse l = PFields c n t /\ strip l = c ++ 58 :: n ++ 58 :: t /\ no_colon c /\ no_colon t).
Proof. exact parse_spec. Qed.
Print Assumptions C20_parser.

(* client -> tracker: what ResourceTracker._send writes for register / unregister / maybe_unlink is
   read back by main() as exactly that request, for EVERY ASCII name -- colons, spaces, empty name
   included -- and, if the name holds no newline, as exactly one line *)
Theorem C20_send_parse_roundtrip : forall name t, is_ascii name = true ->
  classify (client_msg b_REGISTER name t) = QRegister t name /\
  classify (client_msg b_UNREGISTER name t) = QUnregister t name /\
  classify (client_msg b_MAYBE_UNLINK name t) = QMaybeUnlink t name /\
  (~ In 10 name -> forall cmd, cmd = b_REGISTER \/ cmd = b_UNREGISTER \/ cmd = b_MAYBE_UNLINK ->
     readlines (client_msg cmd name t) = [client_msg cmd name t]).
Proof.
  intros name t A. destruct (classify_client_msg name t A) as (H1 & H2 & H3). repeat split; auto.
  intros N cmd C. unfold client_msg.
  replace (cmd ++ 58 :: name ++ 58 :: rtype_name t ++ [10]) with ((cmd ++ 58 :: name ++ 58 :: rtype_name t) ++ [10])
    by (rewrite <- !app_assoc; cbn [app]; rewrite <- !app_assoc; reflexivity).
  apply readlines_one. rewrite !in_app_iff. cbn [In]. rewrite !in_app_iff.
  destruct C as [-> | [-> | ->]]; destruct t; cbn; intuition discriminate.
Qed.
Print Assumptions C20_send_parse_roundtrip.

(* soundness of the harness' synchronisation group (REGISTER s; MAYBE_UNLINK s; unknown command,
   s not in the registry): from ANY registry it leaves the registry as it was and cleans exactly s *)
Theorem C20_sync_transparent : forall w cf r l1 l2 l3 t s,
  classify l1 = QRegister t s -> classify l2 = QMaybeUnlink t s -> malformed (classify l3) ->
  lookup r (t, s) = None ->
  run w cf r [l1; l2; l3] = r /\ map fst (trace w cf r [l1; l2; l3]) = [[]; [(t, s)]; []].
Proof. exact sync_transparent. Qed.
Print Assumptions C20_sync_transparent.

(* readline: the lines are a partition of the stream, none is empty (b"" only at EOF), and a
   newline only ever ends a line *)
Theorem C20_stream : forall s,
  List.concat (readlines s) = s /\ Forall (fun l => l <> []) (readlines s) /\
  Forall (fun l => forall a c, l = a ++ 10 :: c -> c = []) (readlines s).
Proof.
  intros s. split; [apply readlines_concat|]. split; [apply readlines_nonempty | apply readlines_newline_last].
Qed.
Print Assumptions C20_stream.

(* ---------------------------------------------------------------------------------------------
   Client side (Model/TempManager.v): TemporaryResourcesManager + the reducer's file life-cycle +
   delete_folder, composed with the tracker loop through a FIFO pipe.  Events are fine grained
   (one tracker request / one file-system operation / one half of _clean_temporary_resources),
   "killed at any point" = after ANY event list, with the tracker lagging behind arbitrarily. *)

(* whatever of ours is on disk is accounted for: every temporary folder on disk belongs to a
   context whose folder is registered with the tracker once the tracker has read what is already
   in the pipe, and every temporary file on disk lies inside such a folder *)
Theorem C20_manager_invariant : forall evs,
  let w := run_events world0 evs in
  (forall c, In c (w_folders w) -> 0 < pend w (Folder, fold_name c)) /\
  (forall c f, In (c, f) (w_files w) -> In c (w_folders w)).
Proof.
  intros evs w. destruct (run_events_inv evs world0 Inv_world0) as [W R [A B]]. fold w in W, R, A, B.
  split; [intros c H; apply R, A, H | exact B].
Qed.
Print Assumptions C20_manager_invariant.

(* end state: the clients are killed after any history (no atexit finalizer runs), the tracker
   reads the rest of the pipe, gets EOF and runs its finally block: nothing of ours is left *)
Theorem C20_manager_kill_clean : forall evs, disk_after_kill (run_events world0 evs) = ([], []).
Proof. intros evs. apply kill_leaves_nothing, run_events_inv, Inv_world0. Qed.
Print Assumptions C20_manager_kill_clean.

(* normal interpreter exit after ANY history: the live atexit finalizers (_cleanup closures) remove
   every temporary folder themselves -- nothing of ours is on disk even before the tracker acts --
   and the tracker's EOF phase leaves it that way *)
Theorem C20_manager_exit_clean : forall evs,
  let w := exit_normally (run_events world0 evs) in
  w_folders w = [] /\ w_files w = [] /\ disk_after_kill w = ([], []).
Proof.
  intros evs. apply exit_leaves_nothing; [apply run_events_inv, Inv_world0|].
  apply run_events_final. intros c [].
Qed.
Print Assumptions C20_manager_exit_clean.

(* the try block of _clean_temporary_resources, in the order of the code: nothing (guard false);
   or delete_folder raised and NOTHING else happened (the folder is still on disk, still cached,
   still registered); or delete_folder succeeded and only THEN the UNREGISTER is sent *)
Theorem C20_manager_order : forall w c allow,
  (snd (ev_step w (ECleanFolder c allow)) = [] /\ fst (ev_step w (ECleanFolder c allow)) = w) \/
  (snd (ev_step w (ECleanFolder c allow)) = [ADeleteFolder c false] /\ fst (ev_step w (ECleanFolder c allow)) = w /\
   In c (w_folders w)) \/
  (snd (ev_step w (ECleanFolder c allow)) = [ADeleteFolder c true; ASend (QUnregister Folder (fold_name c))] /\
   ~ In c (w_folders (fst (ev_step w (ECleanFolder c allow))))).
Proof. exact clean_folder_actions. Qed.
Print Assumptions C20_manager_order.

(* the order matters: with UNREGISTER sent before delete_folder (NOT the code) a folder whose file
   still has another registered user survives the kill *)
Definition C20_order_witness : list event :=
  [ENewContext 1; EMkdir 1; ERegFile 1 0; ERegFile 1 0; EWrite 1 0; ECleanFiles 1 false; ECleanFolder 1 false].
Theorem C20_manager_order_matters :
  disk_after_kill (run_events world0 C20_order_witness) = ([], []) /\
  disk_after_kill (run_events_swapped world0 C20_order_witness) = ([1%nat], []).
Proof. split; vm_compute; reflexivity. Qed.
Print Assumptions C20_manager_order_matters.

(* ---------------------------------------------------------------------------------------------
   Signals (Model/TrackerStartup.v): ensure_running spawns the tracker with SIGINT/SIGTERM blocked;
   main() first ignores both, then lifts the mask.  A schedule interleaves signal arrivals
   (to the pid or the group: the same for the receiving process) with the start-up instructions
   and, afterwards, with the serving loop. *)

(* a SIGINT/SIGTERM at ANY point of the start-up or later never terminates the tracker, and once
   the start-up is over both signals are ignored and unblocked *)
Theorem C20_signal_safe : forall sched,
  TS.p_alive (TS.run_sched (TS.spawn true TS.code_startup) sched) = true /\
  (TS.p_pc (TS.run_sched (TS.spawn true TS.code_startup) sched) = [] ->
   forall s, TS.ignored (TS.get (TS.run_sched (TS.spawn true TS.code_startup) sched) s) = true).
Proof.
  intros sched. destruct (TSP.run_sched_safe sched _ TSP.spawn_safe) as [A H]. split; [exact A|].
  intros P s. destruct (H s) as [I|[_ F]]; [exact I|]. rewrite P in F. destruct F.
Qed.
Print Assumptions C20_signal_safe.

(* FULL STATEMENT for any order of the start-up (false): refuted for the swapped order
   (unblock, then ignore): a signal that became pending while the tracker was starting is
   delivered with its default action.  Also refuted without the mask set by ensure_running. *)
Theorem C20_signal_order_matters :
  (exists sched, TS.p_alive (TS.run_sched (TS.spawn true TS.swapped_startup) sched) = false) /\
  (exists sched, TS.p_alive (TS.run_sched (TS.spawn false TS.code_startup) sched) = false).
Proof.
  split; [exists [TS.SSignal TS.SIGTERM; TS.SStep] | exists [TS.SSignal TS.SIGINT]]; vm_compute; reflexivity.
Qed.
Print Assumptions C20_signal_order_matters.

(* non-vacuity: a history with a name containing ':', an unbalanced request, malformed lines, a
   deletion in the loop and a non-trivial EOF phase (file before folder, insertion order) *)
Open Scope string_scope.
Example C20_example :
  main false (fun _ => false)
    (bs "REGISTER:C:\a:file
REGISTER:C:\a:file
REGISTER:d:folder
MAYBE_UNLINK:C:\a:file
MAYBE_UNLINK:zz:file
BOGUS:x:file
REGISTER:x:weird
garbage
REGISTER:b:file
MAYBE_UNLINK:C:\a:file
REGISTER:C:\a:file")
  = ([([], None); ([], None); ([], None); ([], None); ([], Some EKey); ([], Some EUnknownCmd);
      ([], Some EUnknownType); ([], Some EUnknownType); ([], None);
      ([(File, bs "C:\a")], None); ([], None)],
     ([(File, bs "b"); (File, bs "C:\a"); (Folder, bs "d")], false)).
Proof. vm_compute. reflexivity. Qed.
Print Assumptions C20_example.

Example C20_example_hypotheses :
  (1 < count [bs "REGISTER:a:file"; bs "REGISTER:a:file"] (File, bs "a")) /\
  (classify (bs "MAYBE_UNLINK:a:file") = QMaybeUnlink File (bs "a") /\ count [bs "REGISTER:a:file"] (File, bs "a") = 1) /\
  malformed (classify (bs "garbage")) /\
  (exists e, o_err (step false (fun _ => false) init (bs "UNREGISTER:a:file")) = Some e /\ e <> EWarning).
Proof.
  split; [vm_compute; reflexivity|]. split; [split; vm_compute; reflexivity|].
  split; [right; left; vm_compute; reflexivity|]. exists EKey. split; [vm_compute; reflexivity | discriminate].
Qed.
Print Assumptions C20_example_hypotheses.
